(* C17, exhaustiveness of the nondeterministic traversal: every order RFC 9535 allows for a descendant segment is
   produced by some outcome of the random choices - up to the position of scalars, from which nothing can be selected
   (the traversal visits a scalar as soon as its generator reaches it; the RESULT of a descendant segment only depends
   on the order in which containers are visited).

   Part 1: given, for every pending generator, the order in which its remaining containers are wanted (an abstract run
   of a machine over containers only), a choice script is constructed that makes nd_loop produce exactly that order:
   the index of the generator for random.randrange, the factorial-base number of the permutation for random.shuffle.
   Part 2: every valid order (Spec/Nondet.valid_order) gives such an abstract run. *)
From JP Require Import Base.Json Spec.Sem Spec.Nondet Model.NdVisit Proofs.EvalProofs Proofs.NdSpec Proofs.NdSim Proofs.NdDepth.
From Coq Require Import Permutation.

(* --- random.shuffle can produce every permutation ------------------------------------------------------------ *)
Lemma perm_nth {A} (pool : list A) x r : Permutation pool (x :: r) ->
  exists j, nth_error pool j = Some x /\ Permutation (remove_nth j pool) r.
Proof.
  intros H. assert (Hin : In x pool) by (eapply Permutation_in; [apply Permutation_sym; exact H | left; reflexivity]).
  apply in_split in Hin as (l1 & l2 & ->). exists (length l1). split.
  - rewrite nth_error_app2 by lia. rewrite Nat.sub_diag. reflexivity.
  - rewrite remove_nth_mid. apply Permutation_sym. apply Permutation_cons_app_inv with (a := x). apply Permutation_sym. exact H.
Qed.

Lemma apply_perm_onto {A} : forall (its pool : list A), Permutation pool its ->
  exists idx, apply_perm (length pool) idx pool = its.
Proof.
  induction its as [|x r IH]; intros pool H.
  - apply Permutation_sym, Permutation_nil in H. subst. exists 0. reflexivity.
  - destruct (perm_nth pool x r H) as (j & Hj & Hp). destruct (IH _ Hp) as [idx' E].
    assert (Hlen : length pool = S (length (remove_nth j pool))).
    { pose proof (remove_nth_length pool j x Hj). assert (j < length pool)%nat by (apply nth_error_Some; congruence). lia. }
    assert (Hjlt : (j < length pool)%nat) by (apply nth_error_Some; congruence).
    exists (Z.of_nat j + zlen pool * idx'). rewrite Hlen at 1. cbn [apply_perm].
    destruct pool as [|a pool']; [cbn in Hjlt; lia|]. set (pool := a :: pool') in *.
    assert (Hk : 0 < zlen pool) by (unfold zlen, pool; cbn [length]; lia).
    assert (Em : (Z.of_nat j + zlen pool * idx') mod zlen pool = Z.of_nat j).
    { rewrite Z.mul_comm, Z_mod_plus_full. apply Z.mod_small. unfold zlen. lia. }
    assert (Ed : (Z.of_nat j + zlen pool * idx') / zlen pool = idx').
    { rewrite Z.mul_comm, Z_div_plus_full by lia. rewrite Z.div_small by (unfold zlen; lia). lia. }
    cbv zeta. rewrite Em, Ed, Nat2Z.id, Hj. f_equal. exact E.
Qed.

(* --- the order in which a generator will yield its items ----------------------------------------------------------- *)
Definition ordering (g : gen_state) (its : list node) : Prop :=
  match g with
  | Remaining ns => its = ns
  | Unstarted p => match snd p with JObj _ => Permutation (children p) its | _ => its = children p end
  end.

Definition step_of (its : list node) (script : list Z) : option node * gen_state * list Z :=
  match its with x :: r => (Some x, Remaining r, script) | [] => (None, Remaining [], script) end.

Lemma gen_next_ordered g its : ordering g its -> exists pre, forall rest, gen_next (pre ++ rest) g = step_of its rest.
Proof.
  destruct g as [p|ns]; cbn [ordering].
  - destruct (snd p) eqn:Ev; try (intros ->; exists []; intros rest; cbn [app gen_next]; rewrite Ev; destruct (children p); reflexivity).
    intros Hp. unfold gen_next. rewrite Ev. unfold shuffle.
    destruct (children p) as [|a [|b cs]] eqn:Ec.
    + apply Permutation_nil in Hp. subst. exists []. reflexivity.
    + apply Permutation_length_1_inv in Hp. subst. exists []. reflexivity.
    + destruct (apply_perm_onto its (a :: b :: cs) Hp) as [idx E]. exists [idx]. intros rest. cbn [app take1]. rewrite E.
      destruct its; reflexivity.
  - intros ->. exists []. intros rest. cbn [app gen_next step_of]. destruct ns; reflexivity.
Qed.

Lemma drain_remaining : forall sc f script sk, Forall scalar sc -> (length sc < f)%nat ->
  (forall x rest, is_container (snd x) = true -> drain f script (Remaining (sc ++ x :: rest)) sk = (sk ++ sc, Some x, Remaining rest, script))
  /\ drain f script (Remaining sc) sk = (sk ++ sc, None, Remaining [], script).
Proof.
  induction sc as [|c sc IH]; intros f script sk Hs Hf; (destruct f as [|f]; [cbn in Hf; lia|]).
  - split; [intros x rest Hx|]; cbn [app drain gen_next]; rewrite ?Hx, app_nil_r; reflexivity.
  - inversion Hs as [|? ? Hc Hs']; subst. cbn [length] in Hf. destruct (IH f script (sk ++ [c]) Hs' ltac:(lia)) as [A B].
    unfold scalar in Hc. split; [intros x rest Hx|]; cbn [app drain gen_next]; rewrite Hc; rewrite <- app_assoc in *; cbn [app] in *; [apply A; exact Hx | exact B].
Qed.

(* draining a generator whose items will come in the order sc ++ x :: rest (sc scalars, x a container), or sc alone *)
Lemma drain_ordered g its : ordering g its -> exists pre, forall rest f sk, (length its < f)%nat ->
  drain f (pre ++ rest) g sk = drain f rest (Remaining its) sk.
Proof.
  intros Ho. destruct (gen_next_ordered g its Ho) as [pre Hpre]. exists pre. intros rest f sk Hf.
  destruct f as [|f]; [lia|]. cbn [drain]. rewrite Hpre. unfold step_of. destruct its as [|x r]; reflexivity.
Qed.

(* --- what the containers of a generator's remaining items will be, in order ------------------------------------------- *)
Definition conts (g : gen_state) (cs : list node) : Prop := exists its, ordering g its /\ filter isc its = cs.

Lemma filter_isc_split : forall its x cs, filter isc its = x :: cs ->
  exists sc rest, its = sc ++ x :: rest /\ Forall scalar sc /\ is_container (snd x) = true /\ filter isc rest = cs.
Proof.
  induction its as [|a its IH]; intros x cs H; [discriminate|]. cbn [filter] in H. destruct (isc a) eqn:Ea.
  - inversion H; subst. exists [], its. split; [reflexivity|]. split; [constructor|]. split; [exact Ea | reflexivity].
  - destruct (IH x cs H) as (sc & rest & -> & Hs & Hx & Hr). exists (a :: sc), rest. split; [reflexivity|]. split; [constructor; [exact Ea | exact Hs]|]. split; [exact Hx | exact Hr].
Qed.
Lemma filter_isc_nil : forall its, filter isc its = [] -> Forall scalar its.
Proof.
  induction its as [|a its IH]; intros H; [constructor|]. cbn [filter] in H. destruct (isc a) eqn:Ea; [discriminate|].
  constructor; [exact Ea | apply IH; exact H].
Qed.
Lemma filter_isc_scalars sc : Forall scalar sc -> filter isc sc = [].
Proof. induction 1 as [|c sc Hc _ IH]; [reflexivity|]. cbn [filter]. unfold scalar in Hc. unfold isc at 1. rewrite Hc. exact IH. Qed.

Lemma ordering_perm g its : ordering g its -> Permutation (items g) its.
Proof.
  destruct g as [p|ns]; cbn [ordering items]; [|intros ->; apply Permutation_refl].
  destruct (snd p); first [intros ->; apply Permutation_refl | intros H; exact H].
Qed.

(* --- the abstract run over containers --------------------------------------------------------------------------------- *)
Fixpoint ARun (css : list (list node)) (Cs : list node) : Prop :=
  match Cs with
  | [] => Forall (fun cs => cs = []) css
  | x :: Cs' => exists i cs' kx, nth_error css i = Some (x :: cs') /\ conts (Unstarted x) kx /\ ARun (set_nth i cs' css ++ [kx]) Cs'
  end.

Definition CRel (e : gen_state * nat) (cs : list node) : Prop := conts (fst e) cs.

Lemma Forall2_nth {A B} (R : A -> B -> Prop) : forall l l' i b, Forall2 R l l' -> nth_error l' i = Some b ->
  exists p1 a p2 q1 q2, l = p1 ++ a :: p2 /\ l' = q1 ++ b :: q2 /\ length p1 = i /\ length q1 = i /\ R a b /\ Forall2 R p1 q1 /\ Forall2 R p2 q2.
Proof.
  intros l l' i b H. revert i. induction H as [|a0 b0 l l' Hab H IH]; intros i Hn; [destruct i; discriminate|].
  destruct i as [|i]; cbn [nth_error] in Hn.
  - inversion Hn; subst. exists [], a0, l, [], l'. repeat split; [exact Hab | constructor | exact H].
  - destruct (IH i Hn) as (p1 & a & p2 & q1 & q2 & -> & -> & L1 & L2 & Ra & F1 & F2).
    exists (a0 :: p1), a, p2, (b0 :: q1), q2. repeat split; cbn [length]; try lia; [exact Ra | constructor; assumption | exact F2].
Qed.

(* the final phase: no container is left in any generator; whatever the script, the loop empties them and stops *)
Lemma finish limit : forall fuel script pend acc, (forall e, In e pend -> Forall scalar (items (fst e))) -> (phi pend < fuel)%nat ->
  exists ns, nd_loop fuel limit script pend acc = Ok ns /\ filter isc ns = filter isc (rev acc).
Proof.
  induction fuel as [|f IH]; intros script pend acc Hall Hphi; [lia|]. cbn [nd_loop].
  destruct pend as [|e0 pend0] eqn:Epend; [eexists; split; reflexivity|]. rewrite <- Epend in *.
  assert (Hne : pend <> []) by (rewrite Epend; discriminate). clear e0 pend0 Epend.
  destruct (take1 script) as [r script1].
  destruct (nth_error pend (Z.to_nat (r mod zlen pend))) as [[g depth]|] eqn:En; [|apply nth_error_None in En; pose proof (idx_in_range pend r Hne); lia].
  apply nth_error_split in En as (p1 & p2 & Ep & Elen). rewrite <- Elen. subst pend. clear Hne.
  rewrite phi_app in Hphi. cbn [phi fst] in Hphi. unfold ecost in Hphi at 1.
  assert (Hlen : (length (items g) < S (S f))%nat) by (pose proof (lcost_len (items g)); lia).
  destruct (erel_exists g) as [qe He].
  destruct (drain (S (S f)) script1 g []) as [[[skipped res] g'] script2] eqn:Ed.
  destruct (drain_spec _ _ _ _ _ Hlen He _ _ _ _ Ed) as (sc & qe1 & Esk & Hsc & Hls & Hres). cbn [app] in Esk. subst skipped.
  assert (Hg : Forall scalar (items g)) by (apply (Hall (g, depth)); apply in_or_app; right; left; reflexivity).
  destruct res as [nd|].
  - exfalso. destruct Hres as (Hc & qe' & _ & _ & Hp). rewrite Forall_forall in Hg.
    assert (Hin : In nd (items g)) by (eapply Permutation_in; [apply Permutation_sym; exact Hp | apply in_or_app; right; left; reflexivity]).
    specialize (Hg nd Hin). unfold scalar in Hg. congruence.
  - destruct Hres as (_ & Hp). rewrite remove_nth_mid.
    destruct (IH script2 (p1 ++ p2) (rev sc ++ acc)) as (ns & E & F).
    + intros e Hin. apply Hall. apply in_app_or in Hin as [Hin|Hin]; apply in_or_app; [left | right; right]; exact Hin.
    + rewrite phi_app. lia.
    + exists ns. split; [exact E|]. rewrite F, rev_app_distr, rev_involutive, filter_app, (filter_isc_scalars sc Hsc), app_nil_r. reflexivity.
Qed.

Lemma set_nth_len {A} (p1 : list A) e e' p2 i : length p1 = i -> set_nth i e' (p1 ++ e :: p2) = p1 ++ e' :: p2.
Proof. intros <-. apply set_nth_mid. Qed.

Lemma nd_loop_S f limit script pend acc : pend <> [] ->
  nd_loop (S f) limit script pend acc =
    (let '(r, script1) := take1 script in
     let idx := Z.to_nat (r mod zlen pend) in
     match nth_error pend idx with
     | None => Crash XIndexError
     | Some (g, depth) =>
         match drain (S (S f)) script1 g [] with
         | (skipped, None, _, script2) => nd_loop f limit script2 (remove_nth idx pend) (rev skipped ++ acc)
         | (skipped, Some nd, g', script2) =>
             if (limit <? depth)%nat then Err ERecursion None
             else nd_loop f limit script2 (set_nth idx (g', depth) pend ++ [(Unstarted nd, S depth)]) (nd :: rev skipped ++ acc)
         end
     end).
Proof. destruct pend; [congruence | reflexivity]. Qed.

(* --- the script that makes the loop follow an abstract run ---------------------------------------------------------- *)
Lemma build limit : forall Cs css pend acc fuel, Forall2 CRel pend css -> ARun css Cs -> (phi pend < fuel)%nat ->
  shallow limit pend -> fits limit pend ->
  exists script ns, nd_loop fuel limit script pend acc = Ok ns /\ filter isc ns = filter isc (rev acc) ++ Cs.
Proof.
  induction Cs as [|x Cs IH]; intros css pend acc fuel HR Hrun Hphi Hsh Hfit.
  - (* nothing but scalars left *)
    cbn [ARun] in Hrun. destruct (finish limit fuel [] pend acc) as (ns & E & F); [|exact Hphi|].
    + intros e Hin. apply In_nth_error in Hin as [i Hi].
      assert (exists cs, nth_error css i = Some cs /\ CRel e cs) as (cs & Hcs & Hc).
      { clear -HR Hi. revert i Hi. induction HR as [|a b l l' Hab _ IHf]; intros i Hi; [destruct i; discriminate|].
        destruct i; cbn [nth_error] in *; [inversion Hi; subst; eauto | apply IHf; exact Hi]. }
      rewrite Forall_forall in Hrun. specialize (Hrun cs (nth_error_In _ _ Hcs)). subst cs.
      destruct Hc as (its & Ho & Hf). apply filter_isc_nil in Hf.
      rewrite Forall_forall in *. intros c Hc. apply Hf. eapply Permutation_in; [apply ordering_perm; exact Ho | exact Hc].
    + exists [], ns. rewrite app_nil_r. split; assumption.
  - cbn [ARun] in Hrun. destruct Hrun as (i & cs' & kx & Hn & Hkx & Hrun).
    destruct (Forall2_nth _ _ _ _ _ HR Hn) as (p1 & [g depth] & p2 & q1 & q2 & -> & -> & L1 & L2 & Rg & F1 & F2).
    unfold CRel in Rg. cbn [fst] in Rg. destruct Rg as (its & Ho & Hf).
    destruct (filter_isc_split its x cs' Hf) as (sc & rest & -> & Hsc & Hx & Hrest).
    destruct (drain_ordered g _ Ho) as [pre Hpre].
    destruct fuel as [|f]; [lia|].
    pose proof (ordering_perm g _ Ho) as Hp.
    rewrite phi_app in Hphi. cbn [phi fst] in Hphi. unfold ecost in Hphi at 1.
    assert (Hlen : (length (sc ++ x :: rest) < S (S f))%nat).
    { pose proof (lcost_len (items g)). apply Permutation_length in Hp. lia. }
    assert (Hsclen : (length sc < S (S f))%nat) by (rewrite app_length in Hlen; lia).
    (* invariants of the next state *)
    set (pend' := (p1 ++ (Remaining rest, depth) :: p2) ++ [(Unstarted x, S depth)]).
    assert (Hxin : In x (items g)) by (eapply Permutation_in; [apply Permutation_sym; exact Hp | apply in_or_app; right; left; reflexivity]).
    assert (Hn1 : (1 <= nesting (snd x))%nat) by (destruct (snd x); try discriminate; cbn [nesting]; lia).
    assert (Hd : (1 <= depth /\ depth - 1 <= limit)%nat) by (apply (Hsh g depth); apply in_or_app; right; left; reflexivity).
    assert (Hdl : (depth <= limit)%nat).
    { specialize (Hfit g depth ltac:(apply in_or_app; right; left; reflexivity) x Hxin). lia. }
    assert (Hphi' : (phi pend' < f)%nat).
    { unfold pend'. rewrite !phi_app. cbn [phi fst]. unfold ecost. cbn [items]. pose proof (children_cost x Hx).
      apply lcost_perm in Hp. rewrite lcost_app in Hp. cbn [lcost] in Hp. rewrite (lcost_scalars sc Hsc) in Hp. lia. }
    assert (Hsh' : shallow limit pend').
    { intros g0 d0 Hin. apply in_app_or in Hin as [Hin | [Hin | []]].
      - apply in_app_or in Hin as [Hin | [Hin | Hin]]; [apply (Hsh g0 d0); apply in_or_app; left; exact Hin | inversion Hin; subst g0 d0; exact Hd | apply (Hsh g0 d0); apply in_or_app; right; right; exact Hin].
      - inversion Hin; subst g0 d0. lia. }
    assert (Hfit' : fits limit pend').
    { intros g0 d0 Hin c Hc0. apply in_app_or in Hin as [Hin | [Hin | []]].
      - apply in_app_or in Hin as [Hin | [Hin | Hin]].
        + apply (Hfit g0 d0); [apply in_or_app; left; exact Hin | exact Hc0].
        + inversion Hin; subst g0 d0. cbn [items] in Hc0. apply (Hfit g depth); [apply in_or_app; right; left; reflexivity|].
          eapply Permutation_in; [apply Permutation_sym; exact Hp | apply in_or_app; right; right; exact Hc0].
        + apply (Hfit g0 d0); [apply in_or_app; right; right; exact Hin | exact Hc0].
      - inversion Hin; subst g0 d0. cbn [items] in Hc0. pose proof (children_nesting x c Hc0).
        specialize (Hfit g depth ltac:(apply in_or_app; right; left; reflexivity) x Hxin). lia. }
    assert (HR' : Forall2 CRel pend' ((q1 ++ cs' :: q2) ++ [kx])).
    { unfold pend'. apply Forall2_app; [apply Forall2_app; [exact F1 | constructor; [|exact F2]] | constructor; [exact Hkx | constructor]].
      exists rest. split; [reflexivity | exact Hrest]. }
    rewrite (set_nth_len q1 (x :: cs') cs' q2 i L2) in Hrun.
    destruct (IH _ pend' (x :: rev sc ++ acc) f HR' Hrun Hphi' Hsh' Hfit') as (script' & ns & E & F).
    exists (Z.of_nat i :: pre ++ script'), ns. split.
    + rewrite nd_loop_S by (destruct p1; discriminate). cbn [take1]. cbv zeta.
      assert (Ei : Z.to_nat (Z.of_nat i mod zlen (p1 ++ (g, depth) :: p2)) = i).
      { rewrite Z.mod_small; [apply Nat2Z.id|]. unfold zlen. rewrite app_length. cbn [length]. lia. }
      rewrite Ei. rewrite <- L1 at 1. rewrite nth_error_app2 by lia. rewrite Nat.sub_diag. cbn [nth_error].
      rewrite (Hpre script' (S (S f)) [] Hlen).
      destruct (drain_remaining sc (S (S f)) script' [] Hsc Hsclen) as [A _]. specialize (A x rest Hx). cbn [app] in A.
      match goal with |- context [drain ?a ?b ?c ?d] => destruct (drain a b c d) as [[[sk0 res0] g0] s0] eqn:Ed end.
      pose proof (eq_trans (eq_sym Ed) A) as Eq. inversion Eq; subst sk0 res0 g0 s0. clear Eq Ed.
      assert (El : (limit <? depth)%nat = false) by (apply Nat.ltb_ge; exact Hdl). rewrite El.
      rewrite <- L1. rewrite set_nth_mid. exact E.
    + rewrite F. cbn [rev]. rewrite rev_app_distr, rev_involutive, !filter_app, (filter_isc_scalars sc Hsc). cbn [filter app].
      unfold isc at 2. rewrite Hx. rewrite <- !app_assoc. reflexivity.
Qed.

(* =========================== Part 2: a valid order gives an abstract run =========================================== *)
From JP Require Import Proofs.AstInd Proofs.FilterProofs.
From Coq Require Import Sorting.Sorted.

(* --- the tree structure of descendants -------------------------------------------------------------------------------- *)
Lemma children_in_desc loc v c : In c (children (loc, v)) -> In c (descendants loc v).
Proof.
  intros H. rewrite descendants_unfold. right. apply in_flat_map. exists c. split; [exact H|].
  unfold subtree. destruct c as [lc vc]. cbn [fst snd]. rewrite descendants_unfold. left. reflexivity.
Qed.
Lemma desc_trans loc v c d : In c (children (loc, v)) -> In d (subtree c) -> In d (descendants loc v).
Proof. intros Hc Hd. rewrite descendants_unfold. right. apply in_flat_map. exists c. split; assumption. Qed.

Lemma desc_parent : forall n v loc d, (nesting v <= n)%nat -> In d (descendants loc v) ->
  d = (loc, v) \/ exists p, In p (descendants loc v) /\ In d (children p).
Proof.
  induction n as [|n IH]; intros v loc d Hn Hd; rewrite descendants_unfold in Hd; destruct Hd as [<- | Hd]; try (left; reflexivity).
  - apply in_flat_map in Hd as (c & Hc & _). pose proof (children_nesting (loc, v) c Hc). cbn [snd] in *. lia.
  - apply in_flat_map in Hd as (c & Hc & Hd). pose proof (children_nesting (loc, v) c Hc) as Hlt. cbn [snd] in Hlt.
    unfold subtree in Hd. destruct (IH (snd c) (fst c) d ltac:(lia) Hd) as [-> | (p & Hp & Hdp)].
    + right. exists (loc, v). split; [rewrite descendants_unfold; left; reflexivity | destruct c; exact Hc].
    + right. exists p. split; [eapply desc_trans; [exact Hc | exact Hp] | exact Hdp].
Qed.

Lemma desc_children_in loc v p c : In p (descendants loc v) -> In c (children p) -> In c (descendants loc v).
Proof.
  revert loc p c. induction v as [| b | n | s | l IH | m IH] using json_ind'; intros loc p c Hp Hc;
    try (destruct Hp as [<- | []]; destruct Hc).
  - rewrite descendants_unfold in Hp. destruct Hp as [<- | Hp]; [apply children_in_desc; exact Hc|].
    apply in_flat_map in Hp as (ch & Hch & Hp). eapply desc_trans; [exact Hch|]. unfold subtree.
    unfold children in Hch. cbn [snd fst] in Hch. apply in_map_iff in Hch as ([i x] & <- & Hix). cbn [fst snd] in *.
    rewrite Forall_forall in IH. apply (IH x (enum_from_in _ _ _ Hix) _ p c Hp Hc).
  - rewrite descendants_unfold in Hp. destruct Hp as [<- | Hp]; [apply children_in_desc; exact Hc|].
    apply in_flat_map in Hp as (ch & Hch & Hp). eapply desc_trans; [exact Hch|]. unfold subtree.
    unfold children in Hch. cbn [snd fst] in Hch. apply in_map_iff in Hch as ([k x] & <- & Hkx). cbn [fst snd] in *.
    rewrite Forall_forall in IH. apply (IH (k, x) Hkx _ p c Hp Hc).
Qed.

Lemma NoDup_fst_inj (l : list node) a b : NoDup (map fst l) -> In a l -> In b l -> fst a = fst b -> a = b.
Proof.
  induction l as [|x l IH]; intros Hnd Ha Hb E; [contradiction|]. cbn [map] in Hnd. inversion Hnd as [|? ? Hx Hnd']; subst.
  destruct Ha as [-> | Ha], Hb as [-> | Hb]; try reflexivity.
  - exfalso. apply Hx. rewrite E. apply in_map. exact Hb.
  - exfalso. apply Hx. rewrite <- E. apply in_map. exact Ha.
  - apply IH; assumption.
Qed.

(* a node of the tree whose location extends p's by one key is one of p's children *)
Lemma child_by_loc v p d k : wf_json v = true -> In p (descendants [] v) -> In d (descendants [] v) ->
  fst d = fst p ++ [k] -> In d (children p).
Proof.
  intros Hw Hp Hd E. pose proof (descendants_NoDup v [] Hw) as Hnd.
  destruct (desc_parent (nesting v) v [] d (le_n _) Hd) as [-> | (p' & Hp' & Hdp')].
  - cbn [fst] in E. destruct (fst p); discriminate.
  - destruct (children_loc _ _ Hdp') as [k' Ek']. rewrite E in Ek'. apply app_inj_tail in Ek' as [Ep _].
    rewrite (NoDup_fst_inj _ p p' Hnd Hp Hp' Ep). exact Hdp'.
Qed.

Lemma index_of_some_in l : forall ls i j, index_of l ls i = Some j -> In l ls.
Proof.
  induction ls as [|x ls IH]; intros i j H; [discriminate|]. cbn [index_of] in H.
  destruct (loc_eqb l x) eqn:E; [apply loc_eqb_eq in E; left; symmetry; exact E | right; eapply IH; exact H].
Qed.

Lemma filter_filter {A} (f g : A -> bool) l : filter f (filter g l) = filter (fun x => g x && f x) l.
Proof. induction l as [|x l IH]; [reflexivity|]. cbn [filter]. destruct (g x); cbn [filter andb]; [destruct (f x)|]; rewrite IH; reflexivity. Qed.

Lemma sorted_perm_eq {A} (k : A -> nat) : forall L F : list A, Permutation L F ->
  StronglySorted (fun a b => k a < k b)%nat L -> StronglySorted (fun a b => k a < k b)%nat F -> L = F.
Proof.
  induction L as [|a L IH]; intros F Hp HL HF; [apply Permutation_nil in Hp; congruence|].
  destruct F as [|b F]; [apply Permutation_sym, Permutation_nil in Hp; discriminate|].
  inversion HL as [|? ? HL' Ha]; subst. inversion HF as [|? ? HF' Hb]; subst.
  assert (a = b).
  { assert (Hin : In a (b :: F)) by (eapply Permutation_in; [exact Hp | left; reflexivity]).
    destruct Hin as [-> | Hin]; [reflexivity|]. exfalso.
    rewrite Forall_forall in Ha, Hb. specialize (Hb a Hin).
    assert (Hin2 : In b (a :: L)) by (eapply Permutation_in; [apply Permutation_sym; exact Hp | left; reflexivity]).
    destruct Hin2 as [-> | Hin2]; [lia|]. specialize (Ha b Hin2). lia. }
  subst b. f_equal. apply IH; [eapply Permutation_cons_inv; exact Hp | exact HL' | exact HF'].
Qed.
Lemma StronglySorted_filter {A} (R : A -> A -> Prop) (f : A -> bool) l : StronglySorted R l -> StronglySorted R (filter f l).
Proof.
  induction 1 as [|a l Hl IH Ha]; [constructor|]. cbn [filter]. destruct (f a); [|exact IH].
  constructor; [exact IH|]. rewrite Forall_forall in *. intros x Hx. apply filter_In in Hx as [Hx _]. apply Ha. exact Hx.
Qed.
Lemma StronglySorted_app_r {A} (R : A -> A -> Prop) l1 l2 : StronglySorted R (l1 ++ l2) -> StronglySorted R l2.
Proof. induction l1 as [|a l1 IH]; [auto|]. cbn [app]. intros H. inversion H; subst. apply IH. assumption. Qed.

Lemma NoDup_app_l {A} (a b : list A) : NoDup (a ++ b) -> NoDup a.
Proof. induction a as [|x a IH]; [constructor|]. cbn [app]. intros H. inversion H; subst. constructor; [intros Hx; apply H2; apply in_or_app; left; exact Hx | apply IH; assumption]. Qed.
Lemma NoDup_app_r {A} (a b : list A) : NoDup (a ++ b) -> NoDup b.
Proof. induction a as [|x a IH]; [auto|]. cbn [app]. intros H. inversion H; subst. apply IH; assumption. Qed.

Section Exh.
Variable v : json.
Variable o : list node.
Hypothesis Hw : wf_json v = true.
Hypothesis Hperm : Permutation o (descendants [] v).
Hypothesis Hval : valid_order ([], v) (map fst o) = true.
Notation ord := (map fst o).
Notation D := (descendants [] v).

Lemma ord_nodup : NoDup ord.
Proof. eapply Permutation_NoDup; [apply Permutation_sym; apply Permutation_map; exact Hperm | apply descendants_NoDup; exact Hw]. Qed.
Lemma o_in_D x : In x o <-> In x D.
Proof. split; intros H; [eapply Permutation_in; [exact Hperm | exact H] | eapply Permutation_in; [apply Permutation_sym; exact Hperm | exact H]]. Qed.
Lemma o_nodup : NoDup o.
Proof. pose proof ord_nodup as H. apply NoDup_map_inv in H. exact H. Qed.

Definition pos (x : node) : nat := match index_of (fst x) ord 0 with Some i => i | None => 0 end.

Lemma pos_split pre x suf : o = pre ++ x :: suf -> pos x = length pre.
Proof.
  intros E. unfold pos. pose proof ord_nodup as Hnd. rewrite E in *. rewrite map_app in *. cbn [map] in *.
  rewrite index_of_split; [rewrite map_length; reflexivity|]. apply NoDup_remove_2 in Hnd. intros H. apply Hnd. apply in_or_app. left. exact H.
Qed.

Lemma before_pos (a b : node) : before ord (fst a) (fst b) = true -> (pos a < pos b)%nat.
Proof. unfold before, pos. destruct (index_of (fst a) ord 0), (index_of (fst b) ord 0); try discriminate. apply Nat.ltb_lt. Qed.
Lemma before_in la lb : before ord la lb = true -> In la ord.
Proof. unfold before. destruct (index_of la ord 0) eqn:E; [|discriminate]. intros _. eapply index_of_some_in; exact E. Qed.

(* the third conjunct of valid_order, for the nodes of o *)
Lemma val_parent x p k : In x o -> fst x = p ++ [k] -> before ord p (fst x) = true /\
  match k with KIdx i => (0 < i)%Z -> before ord (p ++ [KIdx (i - 1)]) (fst x) = true | KName _ => True end.
Proof.
  intros Hx E. unfold valid_order in Hval. apply andb_true_iff in Hval as [_ H3]. rewrite forallb_forall in H3.
  specialize (H3 (fst x) (in_map fst _ _ Hx)). cbn [fst] in H3.
  assert (Hne : loc_eqb (fst x) [] = false) by (rewrite E; destruct p; reflexivity). 
  match type of H3 with (if ?b then _ else _) = _ => replace b with false in H3 by (symmetry; exact Hne) end.
  assert (Epp : parent_and_prev (fst x) = (Some p, match k with KIdx i => if 0 <? i then Some (p ++ [KIdx (i - 1)]) else None | KName _ => None end))
    by (rewrite E; apply parent_and_prev_snoc).
  rewrite Epp in H3. apply andb_true_iff in H3 as [A B]. split; [exact A|].
  destruct k as [s|i]; [exact I|]. intros Hi. assert (Ei : (0 <? i) = true) by (apply Z.ltb_lt; exact Hi). rewrite Ei in B. exact B.
Qed.

(* o is sorted by position *)
Lemma o_sorted_from : forall l pre, o = pre ++ l -> StronglySorted (fun a b => pos a < pos b)%nat l.
Proof.
  induction l as [|x l IH]; intros pre E; [constructor|]. constructor.
  - apply (IH (pre ++ [x])). rewrite <- app_assoc. exact E.
  - rewrite Forall_forall. intros y Hy. apply in_split in Hy as (m & s & ->).
    rewrite (pos_split pre x _ E). rewrite (pos_split (pre ++ x :: m) y s) by (rewrite <- app_assoc; exact E). rewrite app_length. cbn [length]. lia.
Qed.

(* every node other than the root comes after its parent, which is a container *)
Lemma parent_before pre c suf : o = pre ++ c :: suf -> fst c <> [] ->
  exists p, In p pre /\ is_container (snd p) = true /\ In c (children p).
Proof.
  intros E Hne. assert (Hc : In c o) by (rewrite E; apply in_or_app; right; left; reflexivity).
  destruct (rev (fst c)) as [|k rp] eqn:Er; [apply (f_equal (@rev key)) in Er; rewrite rev_involutive in Er; contradiction|].
  assert (Ec : fst c = rev rp ++ [k]) by (apply (f_equal (@rev key)) in Er; rewrite rev_involutive in Er; exact Er).
  destruct (val_parent c (rev rp) k Hc Ec) as [Hb _].
  pose proof (before_in _ _ Hb) as Hin. apply in_map_iff in Hin as (p & Ep & Hp).
  assert (Hlt : (pos p < pos c)%nat) by (apply before_pos; rewrite Ep; exact Hb).
  assert (Hpre : In p pre).
  { rewrite E in Hp. apply in_app_or in Hp as [Hp | [<- | Hp]]; [exact Hp | lia |]. exfalso.
    apply in_split in Hp as (m & s & ->). rewrite (pos_split pre c _ E) in Hlt.
    rewrite (pos_split (pre ++ c :: m) p s) in Hlt by (rewrite <- app_assoc; exact E). rewrite app_length in Hlt. cbn [length] in Hlt. lia. }
  assert (Hch : In c (children p)).
  { apply (child_by_loc v p c k Hw); [apply o_in_D; rewrite E; apply in_or_app; left; exact Hpre | apply o_in_D; exact Hc | rewrite Ep; exact Ec]. }
  exists p. split; [exact Hpre|]. split; [|exact Hch]. unfold children in Hch. destruct (snd p); try contradiction; reflexivity.
Qed.

(* --- the children of a visited container, in the order in which the rest of o lists them ---------------------------- *)
Definition is_child (p c : node) : bool :=
  match rev (fst c) with k :: rp => loc_eqb (rev rp) (fst p) | [] => false end.
Lemma is_child_spec p c : is_child p c = true <-> exists k, fst c = fst p ++ [k].
Proof.
  unfold is_child. split.
  - destruct (rev (fst c)) as [|k rp] eqn:Er; [discriminate|]. intros H. apply loc_eqb_eq in H. exists k.
    apply (f_equal (@rev key)) in Er. rewrite rev_involutive in Er. rewrite Er. cbn [rev]. rewrite H. reflexivity.
  - intros [k E]. rewrite E, rev_app_distr. cbn [rev app]. rewrite rev_involutive. apply loc_eqb_refl.
Qed.
Definition ck (p c : node) : bool := is_child p c && isc c.

Lemma NoDup_heads : forall L : list node, NoDup (map fst (flat_map subtree L)) -> NoDup (map fst L).
Proof.
  induction L as [|x L IH]; intros H; [constructor|]. cbn [flat_map map] in *. unfold subtree at 1 in H. destruct x as [lx vx]. cbn [fst snd] in *.
  rewrite descendants_unfold in H. cbn [app map fst] in H. inversion H as [|? ? Hx Hr]; subst. rewrite map_app in Hr, Hx.
  constructor.
  - intros Hin. apply Hx. apply in_or_app. right. apply in_map_iff in Hin as (y & Ey & Hy). apply in_map_iff. exists y. split; [exact Ey|].
    apply in_flat_map. exists y. split; [exact Hy|]. unfold subtree. destruct y as [ly vy]. cbn [fst snd]. rewrite descendants_unfold. left. reflexivity.
  - apply IH. apply NoDup_app_r in Hr. exact Hr.
Qed.

Lemma children_nodup c : In c D -> NoDup (children c).
Proof.
  intros Hc. assert (Hwc : wf_json (snd c) = true) by (apply (descendants_P _ hereditary_wf v [] c Hw Hc)).
  pose proof (descendants_NoDup (snd c) (fst c) Hwc) as H. rewrite descendants_unfold in H. cbn [map fst] in H. inversion H as [|? ? _ Hr]; subst.
  destruct c as [lc vc]. cbn [fst snd] in *. apply NoDup_heads in Hr. apply NoDup_map_inv in Hr. exact Hr.
Qed.

Lemma suffix_after pre c suf x : o = pre ++ c :: suf -> In x o -> (pos c < pos x)%nat -> In x suf.
Proof.
  intros E Hx Hlt. rewrite E in Hx. apply in_app_or in Hx as [Hx | [<- | Hx]]; [|lia|exact Hx]. exfalso.
  apply in_split in Hx as (m & s & ->). rewrite <- app_assoc in E. cbn [app] in E.
  rewrite (pos_split m x _ E) in Hlt. rewrite (pos_split (m ++ x :: s) c suf) in Hlt by (rewrite <- app_assoc; exact E). rewrite app_length in Hlt. cbn [length] in Hlt. lia.
Qed.

Lemma kids_elems pre c suf x : o = pre ++ c :: suf -> (In x (children c) <-> In x (filter (is_child c) suf)).
Proof.
  intros E. assert (Hc : In c o) by (rewrite E; apply in_or_app; right; left; reflexivity). split.
  - intros Hx. destruct (children_loc _ _ Hx) as [k Ek].
    assert (HxD : In x D) by (eapply desc_children_in; [apply o_in_D; exact Hc | exact Hx]).
    apply filter_In. split; [|apply is_child_spec; exists k; exact Ek].
    apply (suffix_after pre c suf x E); [apply o_in_D; exact HxD|]. apply before_pos.
    destruct (val_parent x (fst c) k ltac:(apply o_in_D; exact HxD) Ek) as [Hb _]. exact Hb.
  - intros Hx. apply filter_In in Hx as [Hx Hi]. apply is_child_spec in Hi as [k Ek].
    apply (child_by_loc v c x k Hw); [apply o_in_D; exact Hc | apply o_in_D; rewrite E; apply in_or_app; right; right; exact Hx | exact Ek].
Qed.

Lemma kids_perm pre c suf : o = pre ++ c :: suf -> Permutation (children c) (filter (is_child c) suf).
Proof.
  intros E. assert (Hc : In c o) by (rewrite E; apply in_or_app; right; left; reflexivity).
  apply NoDup_Permutation; [apply children_nodup; apply o_in_D; exact Hc | | intros x; apply (kids_elems pre c suf x E)].
  apply NoDup_filter. pose proof o_nodup as H. rewrite E in H. apply NoDup_app_r in H. inversion H; assumption.
Qed.

Lemma enum_sorted (lc : list key) : forall (l : list json) j, 0 <= j ->
  (forall x, In x (map (fun ie : Z * json => (lc ++ [KIdx (fst ie)], snd ie)) (enum_from j l)) -> In x o) ->
  Sorted (fun a b => pos a < pos b)%nat (map (fun ie : Z * json => (lc ++ [KIdx (fst ie)], snd ie)) (enum_from j l)).
Proof.
  induction l as [|x l IH]; intros j Hj Hin; cbn [enum_from map]; [constructor|].
  constructor; [apply (IH (j + 1)); [lia | intros y Hy; apply Hin; right; exact Hy]|].
  destruct l as [|y l]; cbn [enum_from map]; constructor. cbn [fst snd].
  apply before_pos. cbn [fst].
  destruct (val_parent (lc ++ [KIdx (j + 1)], y) lc (KIdx (j + 1))) as [_ Hb]; [apply Hin; right; left; reflexivity | reflexivity|].
  specialize (Hb ltac:(lia)). cbn [fst] in Hb. replace (j + 1 - 1) with j in Hb by lia. exact Hb.
Qed.
Lemma arr_children_sorted c l : In c o -> snd c = JArr l -> StronglySorted (fun a b => pos a < pos b)%nat (children c).
Proof.
  intros Hc El. apply Sorted_StronglySorted; [intros a b d; apply Nat.lt_trans|].
  assert (Hin : forall x, In x (children c) -> In x o) by (intros x Hx; apply o_in_D; eapply desc_children_in; [apply o_in_D; exact Hc | exact Hx]).
  unfold children in *. rewrite El in *. apply enum_sorted; [lia | exact Hin].
Qed.

Lemma kids_conts pre c suf : o = pre ++ c :: suf -> conts (Unstarted c) (filter (ck c) suf).
Proof.
  intros E. exists (filter (is_child c) suf). split; [|unfold ck; apply filter_filter].
  pose proof (kids_perm pre c suf E) as Hp. cbn [ordering].
  assert (Hc : In c o) by (rewrite E; apply in_or_app; right; left; reflexivity).
  destruct (snd c) as [| | | |l|m] eqn:Ev; try exact Hp;
    try (unfold children in Hp; rewrite Ev in Hp; apply Permutation_nil in Hp; rewrite Hp; unfold children; rewrite Ev; reflexivity).
  symmetry. apply (sorted_perm_eq pos); [exact Hp | apply (arr_children_sorted c l Hc Ev) |].
  apply StronglySorted_filter. apply (StronglySorted_app_r _ (pre ++ [c])). apply (o_sorted_from _ []). rewrite <- app_assoc. exact E.
Qed.

(* --- the abstract run ------------------------------------------------------------------------------------------------ *)
Lemma ck_scalar p c : isc c = false -> ck p c = false.
Proof. intros H. unfold ck. rewrite H. apply andb_false_r. Qed.

Lemma entries_step : forall (L : list node) p c suf, NoDup (map fst L) -> In p L -> is_child p c = true -> isc c = true ->
  exists i, nth_error (map (fun q => filter (ck q) (c :: suf)) L) i = Some (c :: filter (ck p) suf) /\
            set_nth i (filter (ck p) suf) (map (fun q => filter (ck q) (c :: suf)) L) = map (fun q => filter (ck q) suf) L.
Proof.
  induction L as [|q L IH]; intros p c suf Hnd Hp Hpc Hc; [contradiction|]. cbn [map] in *. inversion Hnd as [|? ? Hq Hnd']; subst.
  apply is_child_spec in Hpc as [k Ek].
  assert (Hother : forall q', fst q' <> fst p -> filter (ck q') (c :: suf) = filter (ck q') suf).
  { intros q' Hne. cbn [filter]. assert (E : ck q' c = false); [|rewrite E; reflexivity].
    unfold ck. destruct (is_child q' c) eqn:Ei; [|reflexivity]. apply is_child_spec in Ei as [k' Ek']. rewrite Ek in Ek'. apply app_inj_tail in Ek' as [Ep _]. congruence. }
  destruct Hp as [-> | Hp].
  - exists 0%nat. cbn [nth_error set_nth filter]. assert (E : ck p c = true) by (unfold ck; rewrite Hc, andb_true_r; apply is_child_spec; exists k; exact Ek).
    rewrite E. split; [reflexivity|]. f_equal. apply map_ext_in. intros q' Hq'. apply Hother. intros Heq. apply Hq. rewrite <- Heq. apply in_map. exact Hq'.
  - destruct (IH p c suf Hnd' Hp ltac:(apply is_child_spec; exists k; exact Ek) Hc) as (i & Hn & Hs).
    exists (S i). cbn [nth_error set_nth]. split; [exact Hn|]. rewrite Hs. f_equal. apply Hother. intros Heq. apply Hq. rewrite Heq. apply in_map. exact Hp.
Qed.

Lemma arun_of : forall suf done, o = done ++ suf -> (suf = [] \/ done <> []) ->
  ARun (map (fun p => filter (ck p) suf) (filter isc done)) (filter isc suf).
Proof.
  induction suf as [|c suf IH]; intros done E Hd.
  - cbn [filter ARun]. apply Forall_forall. intros cs Hcs. apply in_map_iff in Hcs as (p & <- & _). reflexivity.
  - assert (E' : o = (done ++ [c]) ++ suf) by (rewrite <- app_assoc; exact E).
    assert (Hd' : suf = [] \/ done ++ [c] <> []) by (right; destruct done; discriminate).
    specialize (IH (done ++ [c]) E' Hd'). rewrite filter_app in IH. cbn [filter] in *. destruct (isc c) eqn:Ec.
    + (* a container: its parent's entry yields it *)
      destruct Hd as [Hd | Hd]; [discriminate|].
      assert (Hne : fst c <> []).
      { intros Hroot. destruct done as [|r done']; [contradiction|]. cbn [app] in E.
        (* the first node of o is the root: anything else would have its parent before it *)
        destruct (fst r) as [|k0 r0] eqn:Er0; [assert (Er : fst r = []) by exact Er0 | assert (Er : fst r <> []) by (rewrite Er0; discriminate)].
        - pose proof ord_nodup as Hnd. rewrite E in Hnd. cbn [map] in Hnd. inversion Hnd as [|? ? Hx _]; subst. apply Hx. rewrite map_app. apply in_or_app. right. left. congruence.
        - destruct (parent_before [] r (done' ++ c :: suf) E Er) as (p & [] & _). }
      destruct (parent_before done c suf E Hne) as (p & Hp & Hpc & Hch).
      destruct (children_loc _ _ Hch) as [k Ek].
      assert (Hnd : NoDup (map fst (filter isc done))).
      { pose proof ord_nodup as H. rewrite E, map_app in H. apply NoDup_app_l in H. clear -H. induction done as [|x d IHd]; [constructor|].
        cbn [map filter] in *. inversion H; subst. destruct (isc x); [|apply IHd; assumption]. cbn [map]. constructor; [|apply IHd; assumption].
        intros Hin. apply H2. apply in_map_iff in Hin as (y & Ey & Hy). apply filter_In in Hy as [Hy _]. apply in_map_iff. exists y. split; assumption. }
      destruct (entries_step (filter isc done) p c suf Hnd) as (i & Hn & Hs);
        [apply filter_In; split; [exact Hp | exact Hpc] | apply is_child_spec; exists k; exact Ek | exact Ec|].
      cbn [ARun]. exists i, (filter (ck p) suf), (filter (ck c) suf). split; [exact Hn|]. split; [apply (kids_conts done c suf E)|].
      match goal with |- ARun (?X ++ _) _ => replace X with (map (fun q => filter (ck q) suf) (filter isc done)) by (symmetry; exact Hs) end.
      rewrite map_app in IH. cbn [map] in IH. exact IH.
    + rewrite app_nil_r in IH. erewrite map_ext; [exact IH|]. intros p. cbn [filter]. rewrite (ck_scalar p c Ec). reflexivity.
Qed.
End Exh.

(* --- exhaustiveness ------------------------------------------------------------------------------------------------------ *)
Theorem nd_exhaustive limit v o : wf_json v = true -> (1 <= limit)%nat -> (nesting v <= limit)%nat ->
  Permutation o (descendants [] v) -> valid_order ([], v) (map fst o) = true ->
  exists script ns, nd_visit limit script ([], v) = Ok ns /\ filter isc ns = filter isc o.
Proof.
  intros Hw Hl Hn Hperm Hval. set (root := (@nil key, v)).
  assert (HrD : In root (descendants [] v)) by (rewrite descendants_unfold; left; reflexivity).
  destruct o as [|r o']; [apply Permutation_nil in Hperm; rewrite descendants_unfold in Hperm; discriminate|].
  assert (Er : r = root).
  { destruct (fst r) as [|k0 r0] eqn:Er0.
    - apply (NoDup_fst_inj (descendants [] v)); [apply descendants_NoDup; exact Hw | eapply Permutation_in; [exact Hperm | left; reflexivity] | exact HrD | exact Er0].
    - destruct (parent_before v (r :: o') Hw Hperm Hval [] r o' eq_refl ltac:(rewrite Er0; discriminate)) as (p & [] & _). }
  subst r. unfold nd_visit. assert (E1 : (limit <? 1)%nat = false) by (apply Nat.ltb_ge; exact Hl). rewrite E1. cbn [snd].
  assert (Hphi : (phi [(Unstarted root, 2%nat)] < 2 * count_nodes v + 2)%nat).
  { cbn [phi fst]. unfold ecost. cbn [items]. pose proof (cost_count v).
    destruct (is_container v) eqn:Ec; [pose proof (children_cost root) as Hcc; unfold root in Hcc at 1 3; cbn [snd] in Hcc; specialize (Hcc Ec); lia | rewrite (children_scalar root) by exact Ec; cbn [lcost]; lia]. }
  assert (Hsh : shallow limit [(Unstarted root, 2%nat)]) by (intros g d [Hin | []]; inversion Hin; subst; lia).
  assert (Hfit : fits limit [(Unstarted root, 2%nat)]).
  { intros g d [Hin | []] c Hc. inversion Hin; subst. cbn [items] in Hc. pose proof (children_nesting root c Hc) as Hcn. change (snd root) with v in Hcn. lia. }
  assert (HR : Forall2 CRel [(Unstarted root, 2%nat)] [filter (ck root) o']).
  { constructor; [|constructor]. apply (kids_conts v (root :: o') Hw Hperm Hval [] root o' eq_refl). }
  assert (Hrun : ARun [filter (ck root) o'] (filter isc o')).
  { destruct (isc root) eqn:Ec.
    - pose proof (arun_of v (root :: o') Hw Hperm Hval o' [root] eq_refl ltac:(right; discriminate)) as H. cbn [filter] in H. rewrite Ec in H. exact H.
    - (* a scalar has no descendants *)
      assert (o' = []).
      { apply Permutation_length in Hperm. rewrite descendants_unfold in Hperm. rewrite (children_scalar ([], v)) in Hperm by exact Ec. cbn in Hperm. destruct o'; [reflexivity | discriminate]. }
      subst o'. cbn [filter ARun]. constructor; [reflexivity | constructor]. }
  destruct (build limit _ _ _ [root] _ HR Hrun Hphi Hsh Hfit) as (script & ns & E & F).
  exists script, ns. split; [exact E|]. rewrite F. cbn [rev app filter]. destruct (isc root); reflexivity.
Qed.
