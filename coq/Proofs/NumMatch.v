(* The lexer's number patterns RE_INT / RE_FLOAT on the backtracking matcher: what they match and what they do not, on every shape of
   number text (sign, digits, fraction, exponent with or without sign), followed by a character that cannot continue a number. *)
From JP Require Import Base.Prelude Base.Json Model.Regex Model.Tokens Model.Lex Proofs.Requery.
From Coq Require Import ZifyBool ZifyN.

(* a star over a class fails when its continuation fails wherever the star can stop *)
Lemma star_class_fail cls : forall ds F n rest (k : list N -> Z -> option Z),
  match rest with c :: _ => in_ranges c cls = false | [] => True end ->
  (forall j n', (j <= length ds)%nat -> k (skipn j ds ++ rest) n' = None) ->
  rm F (RStar (RClass false cls)) (ds ++ rest) n k = None.
Proof.
  induction ds as [|d ds IH]; intros F n rest k Hr Hk; (destruct F as [|f]; [reflexivity|]); rewrite rm_star_S.
  - cbn [app]. assert (E : rm f (RClass false cls) rest n (fun s' n' => if n' =? n then None else rm f (RStar (RClass false cls)) s' n' k) = None).
    { destruct f as [|f']; [reflexivity|]. rewrite rm_class_S. destruct rest as [|c r]; [reflexivity|]. rewrite Hr. reflexivity. }
    rewrite E. apply (Hk 0%nat n). cbn [length]. lia.
  - cbn [app]. assert (E : rm f (RClass false cls) (d :: ds ++ rest) n (fun s' n' => if n' =? n then None else rm f (RStar (RClass false cls)) s' n' k) = None).
    { destruct f as [|f']; [reflexivity|]. rewrite rm_class_S. destruct (xorb false (in_ranges d cls)); [|reflexivity].
      assert (En : (n + 1 =? n) = false) by lia. rewrite En. apply IH; [exact Hr|]. intros j n' Hj. apply (Hk (S j) n'). cbn [length]. lia. }
    rewrite E. apply (Hk 0%nat n). lia.
Qed.

Lemma digits_suffix_head (body : list N) c r j : forallb isd body = true -> (j <= length body)%nat ->
  exists x tl, skipn j body ++ c :: r = x :: tl /\ (isd x = true \/ x = c).
Proof.
  revert j. induction body as [|b body IH]; intros j Hd Hj.
  - cbn [length] in Hj. assert (j = 0%nat) by lia. subst. cbn. eauto.
  - cbn [forallb] in Hd. apply andb_true_iff in Hd as [H1 H2]. destruct j as [|j]; [cbn; eauto|]. cbn [skipn]. apply IH; [exact H2 | cbn [length] in Hj; lia].
Qed.

Lemma digit_facts d : isd d = true -> in_ranges d cls_digit = true /\ in_ranges d [(101, 101); (69, 69)]%N = false /\ in_ranges d [(46, 46)]%N = false
  /\ in_ranges d [(45, 45)]%N = false /\ in_ranges d [(58, 58)]%N = false.
Proof. unfold isd, cls_digit. cbn [in_ranges]. intros H. repeat split; lia. Qed.

Lemma digits_then_fail body c r F n (k : list N -> Z -> option Z) : forallb isd body = true -> in_ranges c cls_digit = false ->
  (forall x tl n', (isd x = true \/ x = c) -> k (x :: tl) n' = None) ->
  rm F (RSeq (RClass false cls_digit) (RStar (RClass false cls_digit))) (body ++ c :: r) n k = None.
Proof.
  intros Hd Hc Hk. destruct F as [|f]; [reflexivity|]. rewrite rm_seq_S. destruct f as [|f]; [reflexivity|]. rewrite rm_class_S.
  destruct body as [|d ds]; cbn [app]; [rewrite Hc; reflexivity|].
  destruct (xorb false (in_ranges d cls_digit)); [|reflexivity].
  cbn [forallb] in Hd. apply andb_true_iff in Hd as [_ Hd2].
  apply star_class_fail; [exact Hc|]. intros j n' Hj. destruct (digits_suffix_head ds c r j Hd2 Hj) as (x & tl & -> & Hx). apply Hk. exact Hx.
Qed.


(* what may follow a number: not a digit, not an exponent mark, not a dot (nor a minus sign or a colon) *)
Definition numfol (c : N) : Prop :=
  isd c = false /\ in_ranges c [(101, 101); (69, 69)]%N = false /\ in_ranges c [(46, 46)]%N = false
  /\ in_ranges c cls_digit = false /\ in_ranges c [(45, 45)]%N = false /\ in_ranges c [(58, 58)]%N = false.

Lemma int_match_g sign body c r : (sign = [] \/ sign = [45%N]) -> body <> [] -> forallb isd body = true -> numfol c ->
  re_match RE_INT ((sign ++ body) ++ c :: r) = Some (zlen (sign ++ body)).
Proof.
  intros Hs Hne Hd Hc. destruct Hc as (_ & HcE & _ & HcD & _).
  destruct body as [|d ds']; [congruence|]. cbn [forallb] in Hd. apply andb_true_iff in Hd as [Hd1 Hd2].
  destruct (digit_facts d Hd1) as (Ed & _ & _ & E45 & _).
  assert (Hds : forallb (fun x => in_ranges x cls_digit) ds' = true).
  { rewrite forallb_forall in *. intros x Hx. apply (digit_facts x (Hd2 x Hx)). }
  unfold re_match. set (s := (sign ++ d :: ds') ++ c :: r).
  replace (8 * length s + 64)%nat with (S (S (S (S (S (S (S (S (8 * length s + 56)))))))))%nat by lia.
  unfold RE_INT, re_minus_opt, re_digits, re_eE, ROpt, RPlus, RChar. subst s.
  assert (Hk : forall F n, (4 <= F)%nat -> rm F (RAlt (RSeq (RClass false [(101, 101); (69, 69)]%N)
                 (RSeq (RAlt (RClass false [(43, 43)]%N) REps) (RSeq (RClass false cls_digit) (RStar (RClass false cls_digit))))) REps) (c :: r) n (fun _ n0 => Some n0) = Some n).
  { intros F n HF. destruct F as [|[|[|F]]]; try lia. rewrite rm_alt_S, rm_seq_S, rm_class_S, HcE. cbn [xorb]. rewrite rm_eps_S. reflexivity. }
  destruct Hs as [-> | ->]; cbn [app].
  - rewrite rm_seq_S, rm_alt_S, rm_class_S, E45. cbn [xorb]. rewrite rm_eps_S, rm_seq_S, rm_seq_S, rm_class_S, Ed. cbn [xorb].
    rewrite (star_class cls_digit ds' _ (0 + 1) (c :: r) _ (zlen (d :: ds'))); [reflexivity | exact Hds | exact HcD | cbn [length app]; rewrite app_length; cbn [length]; lia |].
    rewrite Hk by (cbn [length app]; lia). f_equal. unfold zlen. cbn [length]. lia.
  - rewrite rm_seq_S, rm_alt_S, rm_class_S. change (in_ranges 45 [(45, 45)]%N) with true. cbn [xorb]. rewrite rm_seq_S, rm_seq_S, rm_class_S, Ed. cbn [xorb].
    rewrite (star_class cls_digit ds' _ (0 + 1 + 1) (c :: r) _ (zlen (45%N :: d :: ds'))); [reflexivity | exact Hds | exact HcD | cbn [length app]; rewrite app_length; cbn [length]; lia |].
    rewrite Hk by (cbn [length app]; lia). f_equal. unfold zlen. cbn [length]. lia.
Qed.

Lemma float_nomatch_g sign body c r : (sign = [] \/ sign = [45%N]) -> body <> [] -> forallb isd body = true -> numfol c ->
  re_match RE_FLOAT ((sign ++ body) ++ c :: r) = None.
Proof.
  intros Hs Hne Hd Hc. destruct Hc as (_ & HcE & Hc46 & HcD & Hc45 & Hc58).
  assert (Hhd : forall x, (isd x = true \/ x = c) -> in_ranges x [(101, 101); (69, 69)]%N = false /\ in_ranges x [(46, 46)]%N = false).
  { intros x [Hx | ->]; [destruct (digit_facts x Hx) as (_ & A & B & _); split; assumption | split; assumption]. }
  (* after the digits a '.' (first alternative) or an exponent mark (second) is required *)
  assert (K1 : forall F (K : list N -> Z -> option Z) R x tl n', (isd x = true \/ x = c) -> rm F (RSeq (RClass false [(46, 46)]%N) R) (x :: tl) n' K = None).
  { intros F K R x tl n' Hx. destruct F as [|[|F]]; try reflexivity. rewrite rm_seq_S, rm_class_S. rewrite (proj2 (Hhd x Hx)). reflexivity. }
  assert (K2 : forall F (K : list N -> Z -> option Z) R x tl n', (isd x = true \/ x = c) -> rm F (RSeq (RClass false [(101, 101); (69, 69)]%N) R) (x :: tl) n' K = None).
  { intros F K R x tl n' Hx. destruct F as [|[|F]]; try reflexivity. rewrite rm_seq_S, rm_class_S. rewrite (proj1 (Hhd x Hx)). reflexivity. }
  destruct body as [|d ds']; [congruence|]. pose proof Hd as Hd0. cbn [forallb] in Hd. apply andb_true_iff in Hd as [Hd1 _].
  destruct (digit_facts d Hd1) as (Ed & _ & _ & E45 & E58).
  unfold re_match. set (F := (8 * length ((sign ++ d :: ds') ++ c :: r) + 64)%nat). clearbody F.
  unfold RE_FLOAT, re_minus_opt, re_digits, re_eE, ROpt, RPlus, RChar.
  destruct F as [|F]; [reflexivity|]. rewrite rm_alt_S.
  (* the minus sign, if any: both ways of reading it fail *)
  assert (A : forall F R, (forall F' x tl n' K, (isd x = true \/ x = c) -> rm F' R (x :: tl) n' K = None) ->
              forall n K, rm F (RSeq (RAlt (RClass false [(45, 45)]%N) REps) (RSeq (RSeq (RClass false cls_digit) (RStar (RClass false cls_digit))) R)) ((sign ++ d :: ds') ++ c :: r) n K = None).
  { intros F0 R HR n K. destruct F0 as [|F0]; [reflexivity|]. rewrite rm_seq_S. destruct F0 as [|F0]; [reflexivity|]. rewrite rm_alt_S.
    assert (Hdig : forall F1 (l : list N) n1, forallb isd l = true -> rm F1 (RSeq (RSeq (RClass false cls_digit) (RStar (RClass false cls_digit))) R) (l ++ c :: r) n1 K = None).
    { intros F1 l n1 Hl. destruct F1 as [|F1]; [reflexivity|]. rewrite rm_seq_S. apply digits_then_fail; [exact Hl | exact HcD|]. intros x tl n' Hx. apply HR. exact Hx. }
    destruct Hs as [-> | ->]; cbn [app].
    - destruct F0 as [|F0]; [reflexivity|]. rewrite rm_class_S, E45. cbn [xorb]. destruct F0 as [|F0]; [reflexivity|]. rewrite rm_eps_S.
      apply (Hdig _ (d :: ds') n Hd0).
    - destruct F0 as [|F0]; [reflexivity|]. rewrite rm_class_S. change (in_ranges 45 [(45, 45)]%N) with true. cbn [xorb].
      rewrite (Hdig _ (d :: ds') (n + 1) Hd0). destruct F0 as [|F0]; [reflexivity|]. rewrite rm_eps_S.
      destruct F0 as [|F0]; [reflexivity|]. rewrite rm_seq_S. destruct F0 as [|F0]; [reflexivity|]. rewrite rm_seq_S. destruct F0 as [|F0]; [reflexivity|]. rewrite rm_class_S. reflexivity. }
  assert (E1 : rm F (RSeq (RAlt (RClass false [(58, 58)]%N) REps)
                 (RSeq (RAlt (RClass false [(45, 45)]%N) REps) (RSeq (RSeq (RClass false cls_digit) (RStar (RClass false cls_digit)))
                   (RSeq (RClass false [(46, 46)]%N) (RSeq (RSeq (RClass false cls_digit) (RStar (RClass false cls_digit)))
                     (RAlt (RSeq (RClass false [(101, 101); (69, 69)]%N) (RSeq (RAlt (RClass false [(43, 43); (45, 45)]%N) REps) (RSeq (RClass false cls_digit) (RStar (RClass false cls_digit))))) REps))))))
              ((sign ++ d :: ds') ++ c :: r) 0 (fun _ n => Some n) = None).
  { destruct F as [|F]; [reflexivity|]. rewrite rm_seq_S. destruct F as [|F]; [reflexivity|]. rewrite rm_alt_S.
    assert (E58' : forall F1 K1', rm F1 (RClass false [(58, 58)]%N) ((sign ++ d :: ds') ++ c :: r) 0 K1' = None).
    { intros F1 K1'. destruct F1 as [|F1]; [reflexivity|]. rewrite rm_class_S. destruct Hs as [-> | ->]; cbn [app]; [rewrite E58 | ]; reflexivity. }
    rewrite E58'. destruct F as [|F]; [reflexivity|]. rewrite rm_eps_S. apply A. intros F' x tl n' K Hx. apply K1. exact Hx. }
  rewrite E1. apply A. intros F' x tl n' K Hx. apply K2. exact Hx.
Qed.

(* sign digits "." digits followed by such a character: the FLOAT pattern takes exactly that *)
Definition re_exp_opt : re := RAlt (RSeq (RClass false [(101, 101); (69, 69)]%N) (RSeq (RAlt (RClass false [(43, 43); (45, 45)]%N) REps) (RSeq (RClass false cls_digit) (RStar (RClass false cls_digit))))) REps.
Definition re_dd : re := RSeq (RClass false cls_digit) (RStar (RClass false cls_digit)).

Lemma exp_none c r G n : in_ranges c [(101, 101); (69, 69)]%N = false -> (4 <= G)%nat -> rm G re_exp_opt (c :: r) n (fun _ n0 => Some n0) = Some n.
Proof. intros HcE HG. destruct G as [|[|[|G]]]; try lia. unfold re_exp_opt. rewrite rm_alt_S, rm_seq_S, rm_class_S, HcE. cbn [xorb]. rewrite rm_eps_S. reflexivity. Qed.

Lemma frac_rm f fs' c r G n : in_ranges f cls_digit = true -> forallb (fun x => in_ranges x cls_digit) fs' = true -> in_ranges c cls_digit = false ->
  in_ranges c [(101, 101); (69, 69)]%N = false -> (12 + length fs' <= G)%nat ->
  rm G (RSeq (RClass false [(46, 46)]%N) (RSeq re_dd re_exp_opt)) (46%N :: (f :: fs') ++ c :: r) n (fun _ n0 => Some n0) = Some (n + 1 + zlen (f :: fs')).
Proof.
  intros Ef Hfs HcD HcE HG. destruct G as [|[|[|[|[|G]]]]]; try lia. unfold re_dd. rewrite rm_seq_S, rm_class_S. change (in_ranges 46 [(46, 46)]%N) with true. cbn [xorb].
  rewrite rm_seq_S, rm_seq_S, rm_class_S. cbn [app]. rewrite Ef. cbn [xorb].
  rewrite (star_class cls_digit fs' _ (n + 1 + 1) (c :: r) _ (n + 1 + zlen (f :: fs'))); [reflexivity | exact Hfs | exact HcD | lia |].
  rewrite exp_none by (try assumption; lia). f_equal. unfold zlen. cbn [length]. lia.
Qed.
Lemma int_frac_rm d ds' f fs' c r G n : in_ranges d cls_digit = true -> forallb (fun x => in_ranges x cls_digit) ds' = true ->
  in_ranges f cls_digit = true -> forallb (fun x => in_ranges x cls_digit) fs' = true -> in_ranges c cls_digit = false ->
  in_ranges c [(101, 101); (69, 69)]%N = false -> (20 + length ds' + length fs' <= G)%nat ->
  rm G (RSeq re_dd (RSeq (RClass false [(46, 46)]%N) (RSeq re_dd re_exp_opt))) ((d :: ds') ++ 46%N :: (f :: fs') ++ c :: r) n (fun _ n0 => Some n0)
  = Some (n + zlen (d :: ds') + 1 + zlen (f :: fs')).
Proof.
  intros Ed Hds Ef Hfs HcD HcE HG. destruct G as [|[|[|G]]]; try lia. unfold re_dd at 1. rewrite rm_seq_S, rm_seq_S, rm_class_S. cbn [app]. rewrite Ed. cbn [xorb].
  rewrite (star_class cls_digit ds' _ (n + 1) (46%N :: (f :: fs') ++ c :: r) _ (n + zlen (d :: ds') + 1 + zlen (f :: fs'))); [reflexivity | exact Hds | reflexivity | lia |].
  rewrite frac_rm by (try assumption; lia). f_equal. unfold zlen. cbn [length]. lia.
Qed.

Lemma float_rm sign d ds' f fs' c r : (sign = [] \/ sign = [45%N]) -> isd d = true -> forallb isd ds' = true -> isd f = true -> forallb isd fs' = true -> numfol c ->
  forall F, (30 + length ds' + length fs' <= F)%nat ->
  rm F RE_FLOAT (sign ++ (d :: ds') ++ 46%N :: (f :: fs') ++ c :: r) 0 (fun _ n => Some n) = Some (zlen sign + zlen (d :: ds') + 1 + zlen (f :: fs')).
Proof.
  intros Hs Hd1 Hd2 Hf1 Hf2 Hc F HF. destruct Hc as (_ & HcE & _ & HcD & _ & _).
  destruct (digit_facts d Hd1) as (Ed & _ & _ & E45 & E58). destruct (digit_facts f Hf1) as (Ef & _ & _ & _ & _).
  assert (Hds : forallb (fun x => in_ranges x cls_digit) ds' = true) by (rewrite forallb_forall in *; intros x Hx; apply (digit_facts x (Hd2 x Hx))).
  assert (Hfs : forallb (fun x => in_ranges x cls_digit) fs' = true) by (rewrite forallb_forall in *; intros x Hx; apply (digit_facts x (Hf2 x Hx))).
  clear Hd1 Hd2 Hf1 Hf2.
  change RE_FLOAT with (RAlt (RSeq (RAlt (RClass false [(58, 58)]%N) REps) (RSeq (RAlt (RClass false [(45, 45)]%N) REps) (RSeq re_dd (RSeq (RClass false [(46, 46)]%N) (RSeq re_dd re_exp_opt)))))
                             (RSeq re_minus_opt (RSeq re_digits (RSeq re_eE (RSeq (RChar 45) re_digits))))).
  destruct F as [|[|[|[|[|[|F]]]]]]; try lia.
  rewrite rm_alt_S, rm_seq_S, rm_alt_S.
  assert (E58' : forall G K, rm G (RClass false [(58, 58)]%N) (sign ++ (d :: ds') ++ 46%N :: (f :: fs') ++ c :: r) 0 K = None).
  { intros G K. destruct G as [|G]; [reflexivity|]. rewrite rm_class_S. destruct Hs as [-> | ->]; cbn [app]; [rewrite E58 |]; reflexivity. }
  rewrite E58', rm_eps_S, rm_seq_S, rm_alt_S.
  destruct Hs as [-> | ->]; cbn [app].
  - rewrite rm_class_S, E45. cbn [xorb]. rewrite rm_eps_S. change (d :: ds' ++ 46%N :: f :: fs' ++ c :: r) with ((d :: ds') ++ 46%N :: (f :: fs') ++ c :: r).
    rewrite int_frac_rm by (try assumption; lia). f_equal.
  - rewrite rm_class_S. change (in_ranges 45 [(45, 45)]%N) with true. cbn [xorb]. change (d :: ds' ++ 46%N :: f :: fs' ++ c :: r) with ((d :: ds') ++ 46%N :: (f :: fs') ++ c :: r).
    rewrite int_frac_rm by (try assumption; lia). f_equal.
Qed.

Lemma float_match_g sign ip fp c r : (sign = [] \/ sign = [45%N]) -> ip <> [] -> forallb isd ip = true -> fp <> [] -> forallb isd fp = true -> numfol c ->
  re_match RE_FLOAT ((sign ++ ip ++ 46%N :: fp) ++ c :: r) = Some (zlen (sign ++ ip ++ 46%N :: fp)).
Proof.
  intros Hs Hne Hd Hfne Hfd Hc.
  destruct ip as [|d ds']; [congruence|]. cbn [forallb] in Hd. apply andb_true_iff in Hd as [Hd1 Hd2].
  destruct fp as [|f fs']; [congruence|]. cbn [forallb] in Hfd. apply andb_true_iff in Hfd as [Hf1 Hf2].
  unfold re_match. replace ((sign ++ (d :: ds') ++ 46%N :: f :: fs') ++ c :: r) with (sign ++ (d :: ds') ++ 46%N :: (f :: fs') ++ c :: r) by (rewrite <- !app_assoc; reflexivity).
  rewrite (float_rm sign d ds' f fs' c r Hs Hd1 Hd2 Hf1 Hf2 Hc).
  - f_equal. unfold zlen. repeat (progress (rewrite ?app_length; cbn [length])). lia.
  - repeat (progress (rewrite ?app_length; cbn [length])). lia.
Qed.

(* ---- numbers with an exponent part ---- *)
(* after the exponent mark of an INT spelling, "-" does not follow *)
Lemma exp_no_minus pl f fs rest G n K : (pl = [] \/ pl = [43%N]) -> isd f = true -> rm G (RSeq (RClass false [(45, 45)]%N) K) (pl ++ f :: fs ++ rest) n (fun _ m => Some m) = None.
Proof.
  intros Hps Hf. destruct G as [|[|G]]; try reflexivity. rewrite rm_seq_S, rm_class_S. destruct (digit_facts f Hf) as (_ & _ & _ & E45 & _).
  destruct Hps as [-> | ->]; cbn [app]; [rewrite E45 |]; reflexivity.
Qed.

Lemma digits_k_fail body rest F n (k : list N -> Z -> option Z) : forallb isd body = true ->
  match rest with c :: _ => in_ranges c cls_digit = false | [] => True end ->
  (forall j n', (j <= length body)%nat -> k (skipn j body ++ rest) n' = None) ->
  rm F re_dd (body ++ rest) n k = None.
Proof.
  intros Hd Hr Hk. unfold re_dd. destruct F as [|f]; [reflexivity|]. rewrite rm_seq_S. destruct f as [|f]; [reflexivity|]. rewrite rm_class_S.
  destruct body as [|d ds]; cbn [app].
  - destruct rest as [|c r]; [reflexivity|]. rewrite Hr. reflexivity.
  - destruct (xorb false (in_ranges d cls_digit)); [|reflexivity]. cbn [forallb] in Hd. apply andb_true_iff in Hd as [_ Hd2].
    apply star_class_fail; [exact Hr|]. intros j n' Hj. apply (Hk (S j) n'). cbn [length]. lia.
Qed.

(* sign? digits R  fails when R fails after every way of stopping inside the digits *)
Lemma minus_digits_fail sg d ds rest R F n (K : list N -> Z -> option Z) : (sg = [] \/ sg = [45%N]) -> isd d = true -> forallb isd ds = true ->
  match rest with c :: _ => in_ranges c cls_digit = false | [] => True end ->
  (forall j n' F', (j <= length (d :: ds))%nat -> rm F' R (skipn j (d :: ds) ++ rest) n' K = None) ->
  rm F (RSeq (RAlt (RClass false [(45, 45)]%N) REps) (RSeq re_dd R)) (sg ++ (d :: ds) ++ rest) n K = None.
Proof.
  intros Hs Hd1 Hd2 Hr HR. destruct (digit_facts d Hd1) as (Ed & _ & _ & E45 & _).
  assert (Hdig : forall F1 n1, rm F1 (RSeq re_dd R) ((d :: ds) ++ rest) n1 K = None).
  { intros F1 n1. destruct F1 as [|F1]; [reflexivity|]. rewrite rm_seq_S. apply digits_k_fail; [cbn [forallb]; rewrite Hd1, Hd2; reflexivity | exact Hr|]. intros j n' Hj. apply HR. exact Hj. }
  destruct F as [|F]; [reflexivity|]. rewrite rm_seq_S. destruct F as [|F]; [reflexivity|]. rewrite rm_alt_S.
  destruct Hs as [-> | ->]; cbn [app].
  - destruct F as [|F]; [reflexivity|]. rewrite rm_class_S, E45. cbn [xorb]. destruct F as [|F]; [reflexivity|]. rewrite rm_eps_S. apply Hdig.
  - destruct F as [|F]; [reflexivity|]. rewrite rm_class_S. change (in_ranges 45 [(45, 45)]%N) with true. cbn [xorb]. rewrite Hdig.
    destruct F as [|F]; [reflexivity|]. rewrite rm_eps_S. destruct F as [|F]; [reflexivity|]. rewrite rm_seq_S. unfold re_dd. destruct F as [|F]; [reflexivity|]. rewrite rm_seq_S. destruct F as [|F]; [reflexivity|]. rewrite rm_class_S. reflexivity.
Qed.

Lemma suffix_head (body : list N) c r j : forallb isd body = true -> (j <= length body)%nat ->
  (exists x tl, skipn j body ++ c :: r = x :: tl /\ isd x = true) \/ (skipn j body ++ c :: r = c :: r).
Proof.
  revert j. induction body as [|b body IH]; intros j Hd Hj.
  - right. destruct j; reflexivity.
  - cbn [forallb] in Hd. apply andb_true_iff in Hd as [H1 H2]. destruct j as [|j]; [left; exists b, (body ++ c :: r); split; [reflexivity | exact H1]|]. cbn [skipn]. apply IH; [exact H2 | cbn [length] in Hj; lia].
Qed.

Lemma float_nomatch_e sg d ds e pl f fs c r : (sg = [] \/ sg = [45%N]) -> isd d = true -> forallb isd ds = true ->
  in_ranges e [(101, 101); (69, 69)]%N = true -> (pl = [] \/ pl = [43%N]) -> isd f = true -> forallb isd fs = true ->
  re_match RE_FLOAT (sg ++ (d :: ds) ++ e :: pl ++ f :: fs ++ c :: r) = None.
Proof.
  intros Hs Hd1 Hd2 He Hps Hf1 Hf2. destruct (digit_facts d Hd1) as (Ed & _ & _ & E45 & E58).
  assert (HeD : in_ranges e cls_digit = false /\ in_ranges e [(46, 46)]%N = false) by (unfold cls_digit; cbn [in_ranges] in *; lia).
  destruct HeD as [HeD He46].
  unfold re_match. set (F := (8 * length (sg ++ (d :: ds) ++ e :: pl ++ f :: fs ++ c :: r) + 64)%nat). clearbody F.
  change RE_FLOAT with (RAlt (RSeq (RAlt (RClass false [(58, 58)]%N) REps) (RSeq (RAlt (RClass false [(45, 45)]%N) REps) (RSeq re_dd (RSeq (RClass false [(46, 46)]%N) (RSeq re_dd re_exp_opt)))))
                             (RSeq (RAlt (RClass false [(45, 45)]%N) REps) (RSeq re_dd (RSeq (RClass false [(101, 101); (69, 69)]%N) (RSeq (RClass false [(45, 45)]%N) re_dd))))).
  destruct F as [|F]; [reflexivity|]. rewrite rm_alt_S.
  (* first alternative: a "." is required right after some of the digits *)
  assert (E1 : forall n K, rm F (RSeq (RAlt (RClass false [(58, 58)]%N) REps) (RSeq (RAlt (RClass false [(45, 45)]%N) REps) (RSeq re_dd (RSeq (RClass false [(46, 46)]%N) (RSeq re_dd re_exp_opt)))))
                              (sg ++ (d :: ds) ++ e :: pl ++ f :: fs ++ c :: r) n K = None).
  { intros n K. destruct F as [|F0]; [reflexivity|]. rewrite rm_seq_S. destruct F0 as [|F0]; [reflexivity|]. rewrite rm_alt_S.
    assert (E58' : forall G K', rm G (RClass false [(58, 58)]%N) (sg ++ (d :: ds) ++ e :: pl ++ f :: fs ++ c :: r) n K' = None).
    { intros G K'. destruct G as [|G]; [reflexivity|]. rewrite rm_class_S. destruct Hs as [-> | ->]; cbn [app]; [rewrite E58 |]; reflexivity. }
    rewrite E58'. destruct F0 as [|F0]; [reflexivity|]. rewrite rm_eps_S.
    apply (minus_digits_fail sg d ds (e :: pl ++ f :: fs ++ c :: r)); try assumption.
    intros j n' F' Hj. destruct F' as [|[|F']]; try reflexivity. rewrite rm_seq_S, rm_class_S.
    destruct (suffix_head (d :: ds) e (pl ++ f :: fs ++ c :: r) j ltac:(cbn [forallb]; rewrite Hd1, Hd2; reflexivity) Hj) as [(x & tl & -> & Hx) | ->].
    - destruct (digit_facts x Hx) as (_ & _ & X46 & _). rewrite X46. reflexivity.
    - rewrite He46. reflexivity. }
  rewrite E1.
  apply (minus_digits_fail sg d ds (e :: pl ++ f :: fs ++ c :: r)); try assumption.
  intros j n' F' Hj. destruct F' as [|[|F']]; try reflexivity. rewrite rm_seq_S, rm_class_S.
  destruct (suffix_head (d :: ds) e (pl ++ f :: fs ++ c :: r) j ltac:(cbn [forallb]; rewrite Hd1, Hd2; reflexivity) Hj) as [(x & tl & -> & Hx) | ->].
  - destruct (digit_facts x Hx) as (_ & XE & _). rewrite XE. reflexivity.
  - rewrite He. cbn [xorb]. apply exp_no_minus; assumption.
Qed.

Definition kid : list N -> Z -> option Z := fun _ n => Some n.
Definition dcls (l : list N) : bool := forallb (fun x => in_ranges x cls_digit) l.
Lemma isd_dcls l : forallb isd l = true -> dcls l = true.
Proof. unfold dcls. rewrite !forallb_forall. intros H x Hx. apply (digit_facts x (H x Hx)). Qed.

(* digits+ then whatever the continuation makes of the rest *)
Lemma dd_rm d ds rest G n (k : list N -> Z -> option Z) x : in_ranges d cls_digit = true -> dcls ds = true ->
  match rest with c :: _ => in_ranges c cls_digit = false | [] => True end -> (length ds + 4 <= G)%nat ->
  k rest (n + zlen (d :: ds)) = Some x -> rm G re_dd ((d :: ds) ++ rest) n k = Some x.
Proof.
  intros Ed Hds Hr HG Hk. destruct G as [|[|G]]; try lia. unfold re_dd. rewrite rm_seq_S, rm_class_S. cbn [app]. rewrite Ed. cbn [xorb].
  apply star_class; [exact Hds | exact Hr | lia|]. rewrite <- Hk. f_equal. unfold zlen. cbn [length]. lia.
Qed.

(* the optional exponent part, present *)
Lemma expo_rm cls e pm f fs c r G n : in_ranges e [(101, 101); (69, 69)]%N = true -> (pm = [] \/ exists s, pm = [s] /\ in_ranges s cls = true) -> in_ranges f cls = false ->
  in_ranges f cls_digit = true -> dcls fs = true -> in_ranges c cls_digit = false -> (length fs + 12 <= G)%nat ->
  rm G (RAlt (RSeq (RClass false [(101, 101); (69, 69)]%N) (RSeq (RAlt (RClass false cls) REps) re_dd)) REps) (e :: pm ++ (f :: fs) ++ c :: r) n kid
  = Some (n + 1 + zlen pm + zlen (f :: fs)).
Proof.
  intros He Hpm Hfc Ef Hfs Hc HG. destruct G as [|[|[|[|[|[|G]]]]]]; try lia.
  rewrite rm_alt_S, rm_seq_S, rm_class_S, He. cbn [xorb]. rewrite rm_seq_S, rm_alt_S.
  destruct Hpm as [-> | (s & -> & Hs)]; cbn [app].
  - rewrite rm_class_S, Hfc. cbn [xorb]. rewrite rm_eps_S.
    change (f :: fs ++ c :: r) with ((f :: fs) ++ c :: r). rewrite (dd_rm f fs (c :: r) _ (n + 1) _ (n + 1 + zlen (@nil N) + zlen (f :: fs))); [reflexivity | assumption | assumption | exact Hc | lia |].
    unfold kid, zlen. cbn [length]. f_equal; lia.
  - rewrite rm_class_S, Hs. cbn [xorb].
    change (f :: fs ++ c :: r) with ((f :: fs) ++ c :: r). rewrite (dd_rm f fs (c :: r) _ (n + 1 + 1) _ (n + 1 + zlen [s] + zlen (f :: fs))); [reflexivity | assumption | assumption | exact Hc | lia |].
    unfold kid, zlen. cbn [length]. f_equal; lia.
Qed.

Lemma sign_rm sg (R : re) rest G n (k : list N -> Z -> option Z) x : (sg = [] \/ sg = [45%N]) ->
  match rest with c :: _ => in_ranges c [(45, 45)]%N = false | [] => True end -> (4 <= G)%nat ->
  (forall G', (G <= G' + 4)%nat -> rm G' R rest (n + zlen sg) k = Some x) ->
  rm G (RSeq (RAlt (RClass false [(45, 45)]%N) REps) R) (sg ++ rest) n k = Some x.
Proof.
  intros Hs Hr HG HR. destruct G as [|[|[|[|G]]]]; try lia. rewrite rm_seq_S, rm_alt_S. destruct Hs as [-> | ->]; cbn [app].
  - rewrite rm_class_S. destruct rest as [|c rest']; [|rewrite Hr; cbn [xorb]]; rewrite rm_eps_S;
      rewrite <- (HR (S (S (S G))) ltac:(lia)); unfold zlen; cbn [length]; rewrite Z.add_0_r; reflexivity.
  - rewrite rm_class_S. change (in_ranges 45 [(45, 45)]%N) with true. cbn [xorb].
    pose proof (HR (S (S (S G))) ltac:(lia)) as E. unfold zlen in E. cbn [length] in E. change (Z.of_nat 1) with 1 in E. rewrite E. reflexivity.
Qed.

Lemma nd_facts c : isd c = false -> in_ranges c cls_digit = false.
Proof. unfold isd, cls_digit. cbn [in_ranges]. lia. Qed.
Lemma eE_facts e : in_ranges e [(101, 101); (69, 69)]%N = true -> in_ranges e cls_digit = false /\ in_ranges e [(46, 46)]%N = false.
Proof. unfold cls_digit. cbn [in_ranges]. lia. Qed.
Lemma d_signs f : isd f = true -> in_ranges f [(43, 43)]%N = false /\ in_ranges f [(43, 43); (45, 45)]%N = false.
Proof. unfold isd. cbn [in_ranges]. lia. Qed.
Ltac nlia := repeat match goal with H : _ = true |- _ => clear H | H : _ = false |- _ => clear H | H : _ \/ _ |- _ => clear H | H : forall _, _ |- _ => clear H end; lia.

Lemma int_exp_rm sg d ds e pl f fs c r : (sg = [] \/ sg = [45%N]) -> isd d = true -> forallb isd ds = true ->
  in_ranges e [(101, 101); (69, 69)]%N = true -> (pl = [] \/ pl = [43%N]) -> isd f = true -> forallb isd fs = true -> isd c = false ->
  forall F, (30 + length ds + length fs <= F)%nat ->
  rm F RE_INT (sg ++ (d :: ds) ++ e :: pl ++ (f :: fs) ++ c :: r) 0 kid = Some (zlen sg + zlen (d :: ds) + 1 + zlen pl + zlen (f :: fs)).
Proof.
  intros Hs Hd1 Hd2 He Hps Hf1 Hf2 Hc F HF.
  destruct (digit_facts d Hd1) as (Ed & _ & _ & E45 & _). destruct (digit_facts f Hf1) as (Ef & _ & _ & _ & _).
  pose proof (isd_dcls _ Hd2) as Hds. pose proof (isd_dcls _ Hf2) as Hfs.
  pose proof (nd_facts c Hc) as HcD.
  destruct (eE_facts e He) as [HeD He46].
  destruct (d_signs f Hf1) as [Hf43 _].
  change RE_INT with (RSeq (RAlt (RClass false [(45, 45)]%N) REps) (RSeq re_dd (RAlt (RSeq (RClass false [(101, 101); (69, 69)]%N) (RSeq (RAlt (RClass false [(43, 43)]%N) REps) re_dd)) REps))).
  apply sign_rm; [exact Hs | cbn [app]; exact E45 | nlia|].
  intros G' HG'. destruct G' as [|G']; [nlia|]. rewrite rm_seq_S.
  apply dd_rm; [exact Ed | exact Hds | exact HeD | nlia|].
  rewrite (expo_rm [(43, 43)]%N e pl f fs c r); try assumption; [f_equal; nlia | | nlia].
  destruct Hps as [-> | ->]; [left; reflexivity | right; exists 43%N; split; reflexivity].
Qed.

(* the first alternative of the FLOAT pattern, the exponent part left to a hypothesis *)
Lemma float1_rm sg d ds f fs tail x : (sg = [] \/ sg = [45%N]) -> isd d = true -> forallb isd ds = true -> isd f = true -> forallb isd fs = true ->
  match tail with c :: _ => in_ranges c cls_digit = false | [] => True end ->
  forall B, (forall G', (B <= G')%nat -> rm G' re_exp_opt tail (zlen sg + zlen (d :: ds) + 1 + zlen (f :: fs)) kid = Some x) ->
  forall F, (B + 30 + length ds + length fs <= F)%nat ->
  rm F RE_FLOAT (sg ++ (d :: ds) ++ 46%N :: (f :: fs) ++ tail) 0 kid = Some x.
Proof.
  intros Hs Hd1 Hd2 Hf1 Hf2 Ht B HB F HF.
  destruct (digit_facts d Hd1) as (Ed & _ & _ & E45 & E58). destruct (digit_facts f Hf1) as (Ef & _ & _ & _ & _).
  pose proof (isd_dcls _ Hd2) as Hds. pose proof (isd_dcls _ Hf2) as Hfs. clear Hd1 Hd2 Hf1 Hf2.
  change RE_FLOAT with (RAlt (RSeq (RAlt (RClass false [(58, 58)]%N) REps) (RSeq (RAlt (RClass false [(45, 45)]%N) REps) (RSeq re_dd (RSeq (RClass false [(46, 46)]%N) (RSeq re_dd re_exp_opt)))))
                             (RSeq re_minus_opt (RSeq re_digits (RSeq re_eE (RSeq (RChar 45) re_digits))))).
  destruct F as [|[|[|[|F]]]]; try nlia.
  rewrite rm_alt_S, rm_seq_S, rm_alt_S.
  assert (E58' : forall G K, rm G (RClass false [(58, 58)]%N) (sg ++ (d :: ds) ++ 46%N :: (f :: fs) ++ tail) 0 K = None).
  { intros G K. destruct G as [|G]; [reflexivity|]. rewrite rm_class_S. destruct Hs as [-> | ->]; cbn [app]; [rewrite E58 |]; reflexivity. }
  rewrite E58', rm_eps_S.
  rewrite (sign_rm sg _ ((d :: ds) ++ 46%N :: (f :: fs) ++ tail) _ 0 kid x); [reflexivity | exact Hs | cbn [app]; exact E45 | nlia |].
  intros G' HG'. destruct G' as [|G']; [nlia|]. rewrite rm_seq_S.
  apply dd_rm; [exact Ed | exact Hds | reflexivity | nlia|].
  destruct G' as [|[|G']]; try nlia. rewrite rm_seq_S, rm_class_S. change (in_ranges 46 [(46, 46)]%N) with true. cbn [xorb]. rewrite rm_seq_S.
  apply dd_rm; [exact Ef | exact Hfs | exact Ht | nlia|].
  rewrite <- (HB G' ltac:(nlia)). f_equal; nlia.
Qed.

Lemma float_alt1_fail sg d ds x tl F n K : (sg = [] \/ sg = [45%N]) -> isd d = true -> forallb isd ds = true ->
  in_ranges x cls_digit = false -> in_ranges x [(46, 46)]%N = false ->
  rm F (RSeq (RAlt (RClass false [(58, 58)]%N) REps) (RSeq (RAlt (RClass false [(45, 45)]%N) REps) (RSeq re_dd (RSeq (RClass false [(46, 46)]%N) (RSeq re_dd re_exp_opt)))))
       (sg ++ (d :: ds) ++ x :: tl) n K = None.
Proof.
  intros Hs Hd1 Hd2 HxD Hx46. destruct (digit_facts d Hd1) as (Ed & _ & _ & E45 & E58).
  destruct F as [|F0]; [reflexivity|]. rewrite rm_seq_S. destruct F0 as [|F0]; [reflexivity|]. rewrite rm_alt_S.
  assert (E58' : forall G K', rm G (RClass false [(58, 58)]%N) (sg ++ (d :: ds) ++ x :: tl) n K' = None).
  { intros G K'. destruct G as [|G]; [reflexivity|]. rewrite rm_class_S. destruct Hs as [-> | ->]; cbn [app]; [rewrite E58 |]; reflexivity. }
  rewrite E58'. destruct F0 as [|F0]; [reflexivity|]. rewrite rm_eps_S.
  apply (minus_digits_fail sg d ds (x :: tl)); try assumption.
  intros j n' F' Hj. destruct F' as [|[|F']]; try reflexivity. rewrite rm_seq_S, rm_class_S.
  destruct (suffix_head (d :: ds) x tl j ltac:(cbn [forallb]; rewrite Hd1, Hd2; reflexivity) Hj) as [(y & tl' & -> & Hy) | ->].
  - destruct (digit_facts y Hy) as (_ & _ & X46 & _). rewrite X46. reflexivity.
  - rewrite Hx46. reflexivity.
Qed.

(* the second alternative: sign digits e "-" digits *)
Lemma float2_rm sg d ds e f fs c r : (sg = [] \/ sg = [45%N]) -> isd d = true -> forallb isd ds = true ->
  in_ranges e [(101, 101); (69, 69)]%N = true -> isd f = true -> forallb isd fs = true -> isd c = false ->
  forall F, (40 + length ds + length fs <= F)%nat ->
  rm F RE_FLOAT (sg ++ (d :: ds) ++ e :: 45%N :: (f :: fs) ++ c :: r) 0 kid = Some (zlen sg + zlen (d :: ds) + 2 + zlen (f :: fs)).
Proof.
  intros Hs Hd1 Hd2 He Hf1 Hf2 Hc F HF.
  destruct (eE_facts e He) as [HeD He46].
  change RE_FLOAT with (RAlt (RSeq (RAlt (RClass false [(58, 58)]%N) REps) (RSeq (RAlt (RClass false [(45, 45)]%N) REps) (RSeq re_dd (RSeq (RClass false [(46, 46)]%N) (RSeq re_dd re_exp_opt)))))
                             (RSeq (RAlt (RClass false [(45, 45)]%N) REps) (RSeq re_dd (RSeq (RClass false [(101, 101); (69, 69)]%N) (RSeq (RClass false [(45, 45)]%N) re_dd))))).
  destruct F as [|F]; [nlia|]. rewrite rm_alt_S. rewrite (float_alt1_fail sg d ds e _ F 0 kid Hs Hd1 Hd2 HeD He46).
  destruct (digit_facts d Hd1) as (Ed & _ & _ & E45 & _). destruct (digit_facts f Hf1) as (Ef & _ & _ & _ & _).
  pose proof (isd_dcls _ Hd2) as Hds. pose proof (isd_dcls _ Hf2) as Hfs.
  pose proof (nd_facts c Hc) as HcD.
  apply sign_rm; [exact Hs | cbn [app]; exact E45 | nlia|].
  intros G' HG'. destruct G' as [|G']; [nlia|]. rewrite rm_seq_S.
  apply dd_rm; [exact Ed | exact Hds | exact HeD | nlia|].
  destruct G' as [|[|[|[|G']]]]; try nlia. rewrite rm_seq_S, rm_class_S, He. cbn [xorb]. rewrite rm_seq_S, rm_class_S. change (in_ranges 45 [(45, 45)]%N) with true. cbn [xorb].
  apply dd_rm; [exact Ef | exact Hfs | exact HcD | nlia|]. unfold kid. f_equal. nlia.
Qed.

(* ---- the two number shapes, as the token patterns describe them ---- *)
Definition sgn (sg : list N) : Prop := sg = [] \/ sg = [45%N].
Definition digs (l : list N) : Prop := l <> [] /\ forallb isd l = true.
Definition eEc (e : N) : Prop := in_ranges e [(101, 101); (69, 69)]%N = true.
Definition int_form (v : list N) : Prop :=
  exists sg ip ex, v = sg ++ ip ++ ex /\ sgn sg /\ digs ip /\ (ex = [] \/ exists e pl ed, ex = e :: pl ++ ed /\ eEc e /\ (pl = [] \/ pl = [43%N]) /\ digs ed).
Definition float_form (v : list N) : Prop :=
  exists sg ip, sgn sg /\ digs ip /\
    ((exists fp ex, v = sg ++ ip ++ 46%N :: fp ++ ex /\ digs fp /\ (ex = [] \/ exists e pm ed, ex = e :: pm ++ ed /\ eEc e /\ (pm = [] \/ pm = [43%N] \/ pm = [45%N]) /\ digs ed))
     \/ (exists e ed, v = sg ++ ip ++ e :: 45%N :: ed /\ eEc e /\ digs ed)).

Lemma digs_cons l : digs l -> exists d ds, l = d :: ds /\ isd d = true /\ forallb isd ds = true.
Proof. intros [Hne Hd]. destruct l as [|d ds]; [congruence|]. cbn [forallb] in Hd. apply andb_true_iff in Hd as [H1 H2]. exists d, ds. repeat split; assumption. Qed.

Lemma int_form_head v : int_form v -> exists c0 w', v = c0 :: w' /\ (c0 = 45%N \/ isd c0 = true).
Proof.
  intros (sg & ip & ex & -> & Hs & Hip & _). destruct (digs_cons ip Hip) as (d & ds & -> & Hd & _).
  destruct Hs as [-> | ->]; cbn [app]; eexists; eexists; (split; [reflexivity|]); [right; exact Hd | left; reflexivity].
Qed.
Lemma float_form_head v : float_form v -> exists c0 w', v = c0 :: w' /\ (c0 = 45%N \/ isd c0 = true).
Proof.
  intros (sg & ip & Hs & Hip & Hv). destruct (digs_cons ip Hip) as (d & ds & -> & Hd & _).
  destruct Hv as [(fp & ex & -> & _) | (e & ed & -> & _)]; destruct Hs as [-> | ->]; cbn [app]; eexists; eexists; (split; [reflexivity|]); first [right; exact Hd | left; reflexivity].
Qed.

Lemma zlen_app (a b : list N) : zlen (a ++ b) = zlen a + zlen b.
Proof. unfold zlen. rewrite app_length. lia. Qed.
Lemma zlen_cons (c : N) (b : list N) : zlen (c :: b) = 1 + zlen b.
Proof. unfold zlen. cbn [length]. lia. Qed.

Lemma int_form_match v c r : int_form v -> numfol c -> re_match RE_FLOAT (v ++ c :: r) = None /\ re_match RE_INT (v ++ c :: r) = Some (zlen v).
Proof.
  intros (sg & ip & ex & -> & Hs & Hip & Hex) Hc. destruct Hex as [-> | (e & pl & ed & -> & He & Hps & Hed)].
  - rewrite app_nil_r. destruct Hip as [Hne Hd]. split; [apply float_nomatch_g | apply int_match_g]; assumption.
  - destruct (digs_cons ip Hip) as (d & ds & -> & Hd1 & Hd2). destruct (digs_cons ed Hed) as (f & fs & -> & Hf1 & Hf2).
    replace ((sg ++ (d :: ds) ++ e :: pl ++ f :: fs) ++ c :: r) with (sg ++ (d :: ds) ++ e :: pl ++ (f :: fs) ++ c :: r) by (rewrite <- !app_assoc; cbn [app]; rewrite <- !app_assoc; reflexivity).
    split.
    + replace (sg ++ (d :: ds) ++ e :: pl ++ (f :: fs) ++ c :: r) with (sg ++ (d :: ds) ++ e :: pl ++ f :: fs ++ c :: r) by reflexivity. apply float_nomatch_e; assumption.
    + unfold re_match. fold kid. rewrite (int_exp_rm sg d ds e pl f fs c r Hs Hd1 Hd2 He Hps Hf1 Hf2 (proj1 Hc)).
      * f_equal. repeat (progress (rewrite ?zlen_app, ?zlen_cons)). clear. lia.
      * clear. repeat (progress (rewrite ?app_length; cbn [length])). lia.
Qed.

Lemma float_form_match v c r : float_form v -> numfol c -> re_match RE_FLOAT (v ++ c :: r) = Some (zlen v).
Proof.
  intros (sg & ip & Hs & Hip & Hv) Hc. destruct (digs_cons ip Hip) as (d & ds & -> & Hd1 & Hd2).
  destruct Hv as [(fp & ex & -> & Hfp & Hex) | (e & ed & -> & He & Hed)].
  - destruct (digs_cons fp Hfp) as (f & fs & -> & Hf1 & Hf2). destruct Hex as [-> | (e & pm & ed & -> & He & Hpm & Hed)].
    + rewrite app_nil_r. apply float_match_g; try assumption; try discriminate. cbn [forallb]. rewrite Hd1, Hd2. reflexivity. cbn [forallb]. rewrite Hf1, Hf2. reflexivity.
    + destruct (digs_cons ed Hed) as (g & gs & -> & Hg1 & Hg2).
      replace ((sg ++ (d :: ds) ++ 46%N :: (f :: fs) ++ e :: pm ++ g :: gs) ++ c :: r) with (sg ++ (d :: ds) ++ 46%N :: (f :: fs) ++ (e :: pm ++ (g :: gs) ++ c :: r))
        by (rewrite <- ?app_assoc; cbn [app]; rewrite <- ?app_assoc; cbn [app]; rewrite <- ?app_assoc; reflexivity).
      unfold re_match. fold kid.
      destruct (digit_facts g Hg1) as (Eg & _). destruct (d_signs g Hg1) as [_ Hg43]. destruct (eE_facts e He) as [HeD _].
      rewrite (float1_rm sg d ds f fs (e :: pm ++ (g :: gs) ++ c :: r) (zlen (sg ++ (d :: ds) ++ 46%N :: (f :: fs) ++ e :: pm ++ g :: gs)) Hs Hd1 Hd2 Hf1 Hf2 HeD (length gs + 12)%nat).
      * reflexivity.
      * intros G' HG'. unfold re_exp_opt. rewrite (expo_rm [(43, 43); (45, 45)]%N e pm g gs c r G'); try assumption.
        -- f_equal. repeat (progress (rewrite ?zlen_app, ?zlen_cons)). clear. lia.
        -- destruct Hpm as [-> | [-> | ->]]; [left; reflexivity | right; exists 43%N; split; reflexivity | right; exists 45%N; split; reflexivity].
        -- apply isd_dcls. exact Hg2.
        -- apply nd_facts. apply Hc.
      * clear. repeat (progress (rewrite ?app_length; cbn [length])). lia.
  - destruct (digs_cons ed Hed) as (f & fs & -> & Hf1 & Hf2).
    replace ((sg ++ (d :: ds) ++ e :: 45%N :: f :: fs) ++ c :: r) with (sg ++ (d :: ds) ++ e :: 45%N :: (f :: fs) ++ c :: r) by (rewrite <- ?app_assoc; cbn [app]; rewrite <- ?app_assoc; reflexivity).
    unfold re_match. fold kid. rewrite (float2_rm sg d ds e f fs c r Hs Hd1 Hd2 He Hf1 Hf2 (proj1 Hc)).
    + f_equal. repeat (progress (rewrite ?zlen_app, ?zlen_cons)). clear. lia.
    + clear. repeat (progress (rewrite ?app_length; cbn [length])). lia.
Qed.


(* ---- the decidable form of float_form used by the round-trip theorem's side condition (Spec/Printable.v) ---- *)
From JP Require Import Model.PyFloat Spec.Printable.
Lemma take_digits_spec : forall s d r, take_digits s = (d, r) -> s = d ++ r /\ forallb isd d = true.
Proof.
  induction s as [|c s IH]; intros d r H; cbn [take_digits] in H.
  - inversion H. split; reflexivity.
  - change (is_digit c) with (isd c) in H. destruct (isd c) eqn:Ec.
    + destruct (take_digits s) as [d' r'] eqn:E. inversion H; subst. destruct (IH d' r eq_refl) as [-> Hd]. split; [reflexivity|]. cbn [forallb]. rewrite Ec, Hd. reflexivity.
    + inversion H. split; reflexivity.
Qed.
Lemma nonnil_digs d : nonnil_ d = true -> forallb isd d = true -> digs d.
Proof. intros H1 H2. split; [destruct d; [discriminate | discriminate] | exact H2]. Qed.
Lemma is_eE_eEc e : is_eE e = true -> eEc e.
Proof. unfold is_eE, eEc. cbn [in_ranges]. lia. Qed.

Lemma float_formb_sound v : float_formb v = true -> float_form v.
Proof.
  unfold float_formb. intros H.
  assert (Hs : exists sg s1, v = sg ++ s1 /\ sgn sg /\ (match v with 45%N :: r => r | _ => v end) = s1).
  { destruct v as [|c r]; [exists [], []; repeat split; left; reflexivity|]. destruct (N.eqb c 45) eqn:Ec.
    - apply N.eqb_eq in Ec. subst c. exists [45%N], r. split; [reflexivity|]. split; [right; reflexivity | reflexivity].
    - exists [], (c :: r). split; [reflexivity|]. split; [left; reflexivity|]. destruct c; try reflexivity. repeat (destruct p; try reflexivity). discriminate Ec. }
  destruct Hs as (sg & s1 & -> & Hsg & Es1). rewrite Es1 in H. clear Es1.
  destruct (take_digits s1) as [ip s2] eqn:E1. destruct (take_digits_spec _ _ _ E1) as [-> Hip]. apply andb_true_iff in H as [Hn H].
  exists sg, ip. split; [exact Hsg|]. split; [apply nonnil_digs; assumption|].
  destruct s2 as [|c s3]; [discriminate H|]. destruct (N.eqb c 46) eqn:E46.
  - apply N.eqb_eq in E46. subst c. destruct (take_digits s3) as [fp s4] eqn:E2. destruct (take_digits_spec _ _ _ E2) as [-> Hfp]. apply andb_true_iff in H as [Hnf H].
    left. exists fp, s4. split; [reflexivity|]. split; [apply nonnil_digs; assumption|].
    destruct s4 as [|e s5]; [left; reflexivity | right]. apply andb_true_iff in H as [He H].
    assert (Hp : exists pm s6, s5 = pm ++ s6 /\ (pm = [] \/ pm = [43%N] \/ pm = [45%N]) /\ (match s5 with 43%N :: r => r | 45%N :: r => r | _ => s5 end) = s6).
    { destruct s5 as [|c r]; [exists [], []; repeat split; left; reflexivity|]. destruct (N.eqb c 43) eqn:E43; [apply N.eqb_eq in E43; subst c; exists [43%N], r; repeat split; right; left; reflexivity|].
      destruct (N.eqb c 45) eqn:E45; [apply N.eqb_eq in E45; subst c; exists [45%N], r; repeat split; right; right; reflexivity|].
      exists [], (c :: r). split; [reflexivity|]. split; [left; reflexivity|]. destruct c; try reflexivity. repeat (destruct p; try reflexivity); try discriminate E43; discriminate E45. }
    destruct Hp as (pm & s6 & -> & Hpm & Es6). rewrite Es6 in H. destruct (take_digits s6) as [ed s7] eqn:E3. destruct (take_digits_spec _ _ _ E3) as [-> Hed].
    apply andb_true_iff in H as [Hne Hnil]. destruct s7; [|discriminate Hnil]. rewrite app_nil_r.
    exists e, pm, ed. split; [reflexivity|]. split; [apply is_eE_eEc; exact He|]. split; [exact Hpm | apply nonnil_digs; assumption].
  - assert (H' : match s3 with 45%N :: s3' => is_eE c && (let '(ed, s4) := take_digits s3' in nonnil_ ed && isnil_ s4) | _ => false end = true).
    { destruct c; try exact H. repeat (destruct p; try exact H). discriminate E46. }
    clear H. destruct s3 as [|m s3']; [discriminate H'|]. destruct (N.eqb m 45) eqn:E45; [|destruct m; try discriminate H'; repeat (destruct p; try discriminate H'); discriminate E45].
    apply N.eqb_eq in E45. subst m. apply andb_true_iff in H' as [He H]. destruct (take_digits s3') as [ed s4] eqn:E3. destruct (take_digits_spec _ _ _ E3) as [-> Hed].
    apply andb_true_iff in H as [Hne Hnil]. destruct s4; [|discriminate Hnil]. rewrite app_nil_r.
    right. exists c, ed. split; [reflexivity|]. split; [apply is_eE_eEc; exact He | apply nonnil_digs; assumption].
Qed.
