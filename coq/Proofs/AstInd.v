(* Induction principle for the nested mutual AST, and hereditary predicates on JSON values. *)
From JP Require Import Base.Json Model.Ast.

Section AstInd.
  Variables (Ps : sel -> Prop) (Pe : expr -> Prop) (Pg : seg -> Prop).
  Hypotheses
    (HName : forall k, Ps (SName k)) (HIndex : forall i, Ps (SIndex i))
    (HSlice : forall a b c, Ps (SSlice a b c)) (HWild : Ps SWild)
    (HFilter : forall e, Pe e -> Ps (SFilter e))
    (HLit : forall v, Pe (ELit v))
    (HRel : forall q, Forall Pg q -> Pe (ERel q))
    (HAbs : forall q, Forall Pg q -> Pe (EAbs q))
    (HCall : forall f args, Forall Pe args -> Pe (ECall f args))
    (HNot : forall a, Pe a -> Pe (ENot a))
    (HAnd : forall a b, Pe a -> Pe b -> Pe (EAnd a b))
    (HOr : forall a b, Pe a -> Pe b -> Pe (EOr a b))
    (HCmp : forall o a b, Pe a -> Pe b -> Pe (ECmp o a b))
    (HChild : forall ss, Forall Ps ss -> Pg (Child ss))
    (HDesc : forall ss, Forall Ps ss -> Pg (Desc ss)).

  Fixpoint sel_ind' (s : sel) : Ps s :=
    match s with
    | SName k => HName k | SIndex i => HIndex i | SSlice a b c => HSlice a b c | SWild => HWild
    | SFilter e => HFilter e (expr_ind' e)
    end
  with expr_ind' (e : expr) : Pe e :=
    match e with
    | ELit v => HLit v
    | ERel q => HRel q ((fix go (q : list seg) : Forall Pg q :=
                           match q with [] => Forall_nil _ | g :: q' => Forall_cons g (seg_ind' g) (go q') end) q)
    | EAbs q => HAbs q ((fix go (q : list seg) : Forall Pg q :=
                           match q with [] => Forall_nil _ | g :: q' => Forall_cons g (seg_ind' g) (go q') end) q)
    | ECall f args => HCall f args ((fix go (l : list expr) : Forall Pe l :=
                           match l with [] => Forall_nil _ | a :: l' => Forall_cons a (expr_ind' a) (go l') end) args)
    | ENot a => HNot a (expr_ind' a)
    | EAnd a b => HAnd a b (expr_ind' a) (expr_ind' b)
    | EOr a b => HOr a b (expr_ind' a) (expr_ind' b)
    | ECmp o a b => HCmp o a b (expr_ind' a) (expr_ind' b)
    end
  with seg_ind' (g : seg) : Pg g :=
    match g with
    | Child ss => HChild ss ((fix go (l : list sel) : Forall Ps l :=
                           match l with [] => Forall_nil _ | s :: l' => Forall_cons s (sel_ind' s) (go l') end) ss)
    | Desc ss => HDesc ss ((fix go (l : list sel) : Forall Ps l :=
                           match l with [] => Forall_nil _ | s :: l' => Forall_cons s (sel_ind' s) (go l') end) ss)
    end.

  Lemma ast_ind : (forall s, Ps s) /\ (forall e, Pe e) /\ (forall g, Pg g).
  Proof. repeat split; [apply sel_ind' | apply expr_ind' | apply seg_ind']. Qed.
End AstInd.

(* immediate members of a value *)
Definition members (v : json) : list json :=
  match v with JArr l => l | JObj m => map snd m | _ => [] end.
Definition hereditary (P : json -> Prop) : Prop := forall v x, P v -> In x (members v) -> P x.

Lemma nesting_member v x : In x (members v) -> (nesting x < nesting v)%nat.
Proof.
  destruct v as [| | | | l | m]; cbn [members In]; try tauto.
  - cbn [nesting]. induction l as [|y l IH]; cbn [In fold_right]; [tauto|].
    intros [->|H]; [lia|]. specialize (IH H). lia.
  - cbn [nesting]. induction m as [|[k y] m IH]; cbn [In fold_right map snd]; [tauto|].
    intros [->|H]; [lia|]. specialize (IH H). lia.
Qed.

Lemma hereditary_nesting N : hereditary (fun v => (nesting v <= N)%nat).
Proof. intros v x Hv Hx. pose proof (nesting_member v x Hx). lia. Qed.

Lemma hereditary_wf : hereditary (fun v => wf_json v = true).
Proof.
  intros v x Hv Hx. destruct v as [| | | | l | m]; cbn [members In] in Hx; try tauto.
  - cbn [wf_json] in Hv. rewrite forallb_forall in Hv. apply Hv. exact Hx.
  - cbn [wf_json] in Hv. apply andb_true_iff in Hv as [_ Hv]. rewrite forallb_forall in Hv.
    apply in_map_iff in Hx as [[k y] [<- Hy]]. apply (Hv (k, y)). exact Hy.
Qed.

Lemma hereditary_and P Q : hereditary P -> hereditary Q -> hereditary (fun v => P v /\ Q v).
Proof. intros HP HQ v x [H1 H2] Hx. split; [eapply HP | eapply HQ]; eassumption. Qed.
