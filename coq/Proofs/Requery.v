(* C08, the re-query half: the normalized path of any location of a value compiles, and the compiled query
   selects exactly the node at that location.  End to end through lexer, parser and evaluator models. *)
From JP Require Import Base.Json Spec.StringLit Spec.NormPath Spec.Sem Model.Regex Model.Tokens Model.Lex Model.Ast Model.Parse Model.Eval Model.Api.
From JP Require Import Proofs.StringProofs Proofs.LexString Proofs.LexInv Proofs.ParseInv Proofs.EvalProofs.
From Coq Require Import ZifyBool.

(* --- A. the canonical spelling of a name decodes to the name --------------------------------------- *)
Definition ctl_ok (c : Z) : bool := match hex4 48 48 (hexl (c / 16)) (hexl (c mod 16)) with Some x => x =? c | None => false end.
Lemma ctl_all : forallb ctl_ok (map Z.of_nat (seq 0 32)) = true.
Proof. vm_compute. reflexivity. Qed.
Lemma ctl_hex c : (c < 32)%N -> hex4 48 48 (hexl (Z.of_N c / 16)) (hexl (Z.of_N c mod 16)) = Some (Z.of_N c).
Proof.
  intros H. pose proof ctl_all as A. rewrite forallb_forall in A.
  assert (Hin : In (Z.of_N c) (map Z.of_nat (seq 0 32))).
  { apply in_map_iff. exists (N.to_nat c). split; [lia|]. apply in_seq. lia. }
  specialize (A _ Hin). unfold ctl_ok in A. destruct (hex4 _ _ _ _) as [x|]; [|discriminate]. f_equal. lia.
Qed.

Lemma decode_norm_char c r : is_scalar c = true ->
  spec_decode 39 (norm_char c ++ r) = match spec_decode 39 r with Some t => Some (c :: t) | None => None end.
Proof.
  intros Hs. unfold norm_char.
  destruct (N.eqb c 8) eqn:E8; [apply N.eqb_eq in E8; subst; reflexivity|].
  destruct (N.eqb c 12) eqn:E12; [apply N.eqb_eq in E12; subst; reflexivity|].
  destruct (N.eqb c 10) eqn:E10; [apply N.eqb_eq in E10; subst; reflexivity|].
  destruct (N.eqb c 13) eqn:E13; [apply N.eqb_eq in E13; subst; reflexivity|].
  destruct (N.eqb c 9) eqn:E9; [apply N.eqb_eq in E9; subst; reflexivity|].
  destruct (N.eqb c 39) eqn:E39; [apply N.eqb_eq in E39; subst; reflexivity|].
  destruct (N.eqb c 92) eqn:E92; [apply N.eqb_eq in E92; subst; reflexivity|].
  destruct (c <? 32)%N eqn:E32.
  - cbn [app spec_decode]. change (N.eqb 92 92) with true. cbv iota.
    change (N.eqb 117 39) with false. change (N.eqb 117 98) with false. change (N.eqb 117 102) with false.
    change (N.eqb 117 110) with false. change (N.eqb 117 114) with false. change (N.eqb 117 116) with false.
    change (N.eqb 117 47) with false. change (N.eqb 117 92) with false. change (N.eqb 117 117) with true. cbv iota.
    rewrite ctl_hex by lia.
    assert (L : is_low (Z.of_N c) = false) by (unfold is_low; lia). assert (Hh : is_high (Z.of_N c) = false) by (unfold is_high; lia).
    rewrite L, Hh. rewrite N2Z.id. reflexivity.
  - cbn [app spec_decode]. rewrite E92. unfold is_scalar in Hs. unfold raw_ok.
    assert (R : ((32 <=? c) && negb (c =? 92) && negb (c =? 39) && negb ((55296 <=? c) && (c <=? 57343)) && (c <=? 1114111))%N = true) by lia.
    rewrite R. reflexivity.
Qed.

Theorem decode_norm_body s : forallb is_scalar s = true -> spec_decode 39 (flat_map norm_char s) = Some s.
Proof.
  induction s as [|c s IH]; intros H; [reflexivity|]. cbn [forallb] in H. apply andb_true_iff in H as [Hc Hs].
  cbn [flat_map]. rewrite decode_norm_char by exact Hc. rewrite IH by exact Hs. reflexivity.
Qed.

(* --- B. decimal digits of an index ------------------------------------------------------------------- *)
Definition isd (c : N) : bool := ((48 <=? c) && (c <=? 57))%N.
Lemma digits_val_snoc a d : digits_val (a ++ [d]) = digits_val a * 10 + (Z.of_N d - 48).
Proof. unfold digits_val. rewrite fold_left_app. reflexivity. Qed.

Lemma dec_digits_S f n acc : dec_digits (S f) n acc =
  if n <? 10 then Z.to_N (48 + n) :: acc else dec_digits f (n / 10) (Z.to_N (48 + n mod 10) :: acc).
Proof. reflexivity. Qed.
Lemma dec_digits_spec : forall f n acc, 0 <= n < 2 ^ Z.of_nat (S f) ->
  exists ds, dec_digits (S f) n acc = ds ++ acc /\ ds <> [] /\ forallb isd ds = true /\ digits_val ds = n
             /\ (0 < n -> hd 0%N ds <> 48%N) /\ (n = 0 -> ds = [48%N]).
Proof.
  induction f as [|f IH]; intros n acc Hn.
  - (* n < 2 *) cbn [dec_digits]. assert (E : (n <? 10) = true) by (change (2 ^ Z.of_nat 1) with 2 in Hn; lia). rewrite E.
    exists [Z.to_N (48 + n)]. change (2 ^ Z.of_nat 1) with 2 in Hn.
    repeat split; try discriminate.
    + cbn [forallb]. unfold isd. lia.
    + unfold digits_val. cbn [fold_left]. lia.
    + intros Hp. cbn [hd]. lia.
    + intros ->. reflexivity.
  - rewrite dec_digits_S. destruct (n <? 10) eqn:E.
    + exists [Z.to_N (48 + n)]. repeat split; try discriminate.
      * cbn [forallb]. unfold isd. lia.
      * unfold digits_val. cbn [fold_left]. lia.
      * intros Hp. cbn [hd]. lia.
      * intros ->. reflexivity.
    + assert (H10 : 0 <= n / 10 < 2 ^ Z.of_nat (S f)).
      { rewrite Nat2Z.inj_succ, Z.pow_succ_r in Hn by lia. split; [apply Z.div_pos; lia|]. apply Z.div_lt_upper_bound; lia. }
      destruct (IH (n / 10) (Z.to_N (48 + n mod 10) :: acc) H10) as (ds & Eds & Hne & Hd & Hv & Hh & _).
      exists (ds ++ [Z.to_N (48 + n mod 10)]). rewrite Eds, <- app_assoc. repeat split.
      * destruct ds; discriminate.
      * rewrite forallb_app, Hd. cbn [forallb]. unfold isd. pose proof (Z.mod_pos_bound n 10). lia.
      * rewrite digits_val_snoc, Hv. pose proof (Z.mod_pos_bound n 10). pose proof (Z.div_mod n 10). lia.
      * intros _. destruct ds as [|d ds']; [congruence|]. cbn [app hd] in *. apply Hh. apply Z.div_str_pos. lia.
      * intros ->. discriminate.
Qed.

Lemma norm_index_spec i : 0 <= i ->
  let ds := norm_index i in
  ds <> [] /\ forallb isd ds = true /\ digits_val ds = i /\ (0 < i -> hd 0%N ds <> 48%N) /\ (i = 0 -> ds = [48%N]).
Proof.
  intros Hi. unfold norm_index.
  assert (Hb : 0 <= i < 2 ^ Z.of_nat (S (Z.to_nat (Z.log2 i)))).
  { split; [exact Hi|]. rewrite Nat2Z.inj_succ, Z2Nat.id by apply Z.log2_nonneg.
    destruct (Z.eq_dec i 0) as [->|Hnz]; [reflexivity|]. apply Z.log2_spec. lia. }
  destruct (dec_digits_spec _ i [] Hb) as (ds & E & H1 & H2 & H3 & H4 & H5). rewrite E, app_nil_r. cbv zeta. tauto.
Qed.

(* --- C. the lexer's regular expressions on the texts of a normalized path --------------------------- *)
Definition ws_ranges : list (N * N) := [(32, 32); (10, 10); (13, 13); (9, 9)]%N.
Lemma ws_no_match fuel c r k : in_ranges c ws_ranges = false -> rm fuel RE_WHITESPACE (c :: r) 0 k = None.
Proof.
  intros H. destruct fuel as [|[|f]]; [reflexivity | reflexivity |].
  unfold RE_WHITESPACE, RPlus. cbn [rm]. fold ws_ranges. rewrite H. reflexivity.
Qed.
Lemma ws_no_match_nil fuel k : rm fuel RE_WHITESPACE [] 0 k = None.
Proof. destruct fuel as [|[|f]]; reflexivity. Qed.

Lemma rm_star_S f a s n k : rm (S f) (RStar a) s n k =
  match rm f a s n (fun s' n' => if n' =? n then None else rm f (RStar a) s' n' k) with Some x => Some x | None => k s n end.
Proof. reflexivity. Qed.
Lemma rm_class_S f neg rs s n k : rm (S f) (RClass neg rs) s n k =
  match s with c :: s' => if xorb neg (in_ranges c rs) then k s' (n + 1) else None | [] => None end.
Proof. reflexivity. Qed.
Lemma rm_seq_S f a b s n k : rm (S f) (RSeq a b) s n k = rm f a s n (fun s' n' => rm f b s' n' k).
Proof. reflexivity. Qed.
Lemma rm_alt_S f a b s n k : rm (S f) (RAlt a b) s n k = match rm f a s n k with Some x => Some x | None => rm f b s n k end.
Proof. reflexivity. Qed.
Lemma rm_eps_S f s n k : rm (S f) REps s n k = k s n.
Proof. reflexivity. Qed.

Lemma star_class cls : forall ds F n rest (k : list N -> Z -> option Z) x,
  forallb (fun c => in_ranges c cls) ds = true ->
  match rest with c :: _ => in_ranges c cls = false | [] => True end ->
  (length ds + 2 <= F)%nat -> k rest (n + zlen ds) = Some x ->
  rm F (RStar (RClass false cls)) (ds ++ rest) n k = Some x.
Proof.
  induction ds as [|d ds IH]; intros F n rest k x Hd Hr HF Hk.
  - cbn [app]. destruct F as [|f]; [cbn [length] in HF; lia|]. rewrite rm_star_S.
    replace (n + zlen (@nil N)) with n in Hk by (unfold zlen; cbn [length]; lia).
    assert (E : rm f (RClass false cls) rest n (fun s' n' => if n' =? n then None else rm f (RStar (RClass false cls)) s' n' k) = None).
    { destruct f as [|f']; [reflexivity|]. rewrite rm_class_S. destruct rest as [|c r]; [reflexivity|]. rewrite Hr. reflexivity. }
    rewrite E. exact Hk.
  - cbn [forallb] in Hd. apply andb_true_iff in Hd as [Hd1 Hd2]. cbn [app length] in *.
    destruct F as [|f]; [lia|]. rewrite rm_star_S. destruct f as [|f']; [lia|]. rewrite rm_class_S. rewrite Hd1. cbn [xorb].
    assert (En : (n + 1 =? n) = false) by lia. rewrite En.
    rewrite (IH (S f') (n + 1) rest k x Hd2 Hr); [reflexivity | lia |].
    rewrite <- Hk. f_equal. unfold zlen. cbn [length]. lia.
Qed.

Lemma index_match ds rest : ds <> [] -> forallb isd ds = true ->
  match rest with c :: _ => isd c = false | [] => True end ->
  re_match RE_INDEX (ds ++ rest) = Some (zlen ds).
Proof.
  intros Hne Hd Hr. destruct ds as [|d ds']; [congruence|]. cbn [forallb] in Hd. apply andb_true_iff in Hd as [Hd1 Hd2].
  unfold re_match. set (s := (d :: ds') ++ rest).
  replace (8 * length s + 64)%nat with (S (S (S (S (S (8 * length s + 59))))))%nat by lia.
  unfold RE_INDEX, re_minus_opt, re_digits, ROpt, RPlus, RChar. subst s. cbn [app].
  rewrite rm_seq_S, rm_alt_S, rm_class_S.
  assert (E45 : in_ranges d [(45, 45)]%N = false) by (unfold isd in Hd1; cbn [in_ranges]; lia).
  rewrite E45. cbn [xorb]. rewrite rm_eps_S, rm_seq_S, rm_class_S.
  assert (Ed : in_ranges d cls_digit = true) by (unfold isd in Hd1; unfold cls_digit; cbn [in_ranges]; lia).
  rewrite Ed. cbn [xorb].
  rewrite (star_class cls_digit ds' _ (0 + 1) rest (fun _ n => Some n) (zlen (d :: ds'))); [reflexivity | | | | ].
  - rewrite forallb_forall in *. intros c Hc. specialize (Hd2 c Hc). unfold isd in Hd2. unfold cls_digit. cbn [in_ranges]. lia.
  - destruct rest as [|c r]; [exact I|]. unfold isd in Hr. unfold cls_digit. cbn [in_ranges]. lia.
  - cbn [length app]. rewrite app_length. lia.
  - f_equal. unfold zlen. cbn [length]. lia.
Qed.

(* --- D. the lexer on a normalized path ------------------------------------------------------------------ *)
Definition tk (t : ttype) (v : str) (i : Z) : token := {| ty := t; tval := v; tidx := i |}.

(* the lexer lemmas below hold whatever the filter bookkeeping (filter_depth, filter_func_depth, func_call_stack) is:
   outside a filter expression the lexer only carries it along *)
Section LexGen.
Variables (fd0 : Z) (ffd0 fcs0 : list Z) (bs0 : list (N * Z)).
Definition LX (rest cur : list N) (start pos : Z) (bs : list (N * Z)) (toks : list token) : lexer :=
  {| l_rest := rest; l_cur := cur; l_start := start; l_pos := pos; l_fdepth := fd0; l_ffd := ffd0; l_fcs := fcs0; l_bs := bs; l_toks := toks |}.

Lemma LX_pos rest cur p p' bs T : p = p' -> LX rest cur p p bs T = LX rest cur p' p' bs T.
Proof. intros ->. reflexivity. Qed.

Lemma lex_steps_app : forall n m st l st' l', lex_steps n st l = LNext st' l' -> lex_steps (n + m) st l = lex_steps m st' l'.
Proof.
  induction n as [|n IH]; intros m st l st' l' H; cbn [lex_steps Nat.add] in *.
  - inversion H. reflexivity.
  - destruct (lex_step st l); try discriminate. apply IH. exact H.
Qed.
Lemma lex_steps_1 st l : lex_steps 1 st l = lex_step st l.
Proof. cbn [lex_steps]. destruct (lex_step st l); reflexivity. Qed.

Lemma ignore_ws_nonws c r p bs T : in_ranges c ws_ranges = false ->
  l_ignore_ws (LX (c :: r) [] p p bs T) = Some (false, LX (c :: r) [] p p bs T).
Proof. intros H. unfold l_ignore_ws, l_accept_match, re_match. cbn [l_cur l_rest LX]. rewrite ws_no_match by exact H. reflexivity. Qed.
Lemma ignore_ws_nil p bs T : l_ignore_ws (LX [] [] p p bs T) = Some (false, LX [] [] p p bs T).
Proof. unfold l_ignore_ws, l_accept_match, re_match. cbn [l_cur l_rest LX]. rewrite ws_no_match_nil. reflexivity. Qed.

Lemma step_root r : lex_step SRoot (LX (36%N :: r) [] 0 0 [] []) = LNext SSegment (LX r [] 1 1 [] [tk T_ROOT [36%N] 0]).
Proof. reflexivity. Qed.
Lemma step_seg_open r p T : lex_step SSegment (LX (91%N :: r) [] p p bs0 T)
  = LNext SBracket (LX r [] (p + 1) (p + 1) ((91%N, p + 1 - 1) :: bs0) (tk T_LBRACKET [91%N] p :: T)).
Proof. cbn [lex_step]. rewrite ignore_ws_nonws by reflexivity. reflexivity. Qed.
Lemma step_seg_eof p T : lex_step SSegment (LX [] [] p p bs0 T) = LStop (LX [] [] p p bs0 (tk T_EOF [] p :: T)).
Proof. cbn [lex_step]. rewrite ignore_ws_nil. reflexivity. Qed.
Lemma step_bracket_quote r q bs T : lex_step SBracket (LX (39%N :: r) [] q q bs T) = LNext (SString 39 false) (LX r [39%N] q (q + 1) bs T).
Proof. cbn [lex_step]. rewrite ignore_ws_nonws by reflexivity. reflexivity. Qed.
Lemma step_bracket_close r q i T : lex_step SBracket (LX (93%N :: r) [] q q ((91%N, i) :: bs0) T)
  = LNext SSegment (LX r [] (q + 1) (q + 1) bs0 (tk T_RBRACKET [93%N] q :: T)).
Proof. cbn [lex_step]. rewrite ignore_ws_nonws by reflexivity. reflexivity. Qed.

Lemma skipn_len_app {A} (a b : list A) : skipn (length a) (a ++ b) = b.
Proof. induction a; cbn; auto. Qed.
Lemma firstn_len_app {A} (a b : list A) : firstn (length a) (a ++ b) = a.
Proof. induction a; cbn; [reflexivity | f_equal; assumption]. Qed.

Lemma step_bracket_index ds r q bs T : ds <> [] -> forallb isd ds = true ->
  lex_step SBracket (LX (ds ++ 93%N :: r) [] q q bs T)
  = LNext SBracket (LX (93%N :: r) [] (q + zlen ds) (q + zlen ds) bs (tk T_INDEX ds q :: T)).
Proof.
  intros Hne Hd. destruct ds as [|d ds']; [congruence|]. pose proof Hd as Hd0. cbn [forallb] in Hd. apply andb_true_iff in Hd as [Hd1 _].
  unfold isd in Hd1. cbn [lex_step app]. rewrite ignore_ws_nonws by (cbn [in_ranges ws_ranges]; lia).
  change (l_next (LX (d :: ds' ++ 93%N :: r) [] q q bs T)) with (Some d, LX (ds' ++ 93%N :: r) [d] q (q + 1) bs T). cbv beta iota.
  assert (E93 : N.eqb d 93 = false) by lia. assert (E42 : N.eqb d 42 = false) by lia. assert (E63 : N.eqb d 63 = false) by lia.
  assert (E44 : N.eqb d 44 = false) by lia. assert (E58 : N.eqb d 58 = false) by lia. assert (E39 : N.eqb d 39 = false) by lia.
  assert (E34 : N.eqb d 34 = false) by lia. rewrite E93, E42, E63, E44, E58, E39, E34.
  change (l_backup (LX (ds' ++ 93%N :: r) [d] q (q + 1) bs T)) with (Some (LX (d :: ds' ++ 93%N :: r) [] q (q + 1 - 1) bs T)). cbv iota.
  unfold l_accept_match. cbn [l_rest LX].
  change (d :: ds' ++ 93%N :: r) with ((d :: ds') ++ 93%N :: r).
  rewrite (index_match (d :: ds') (93%N :: r)) by (try discriminate; try exact Hd0; reflexivity).
  unfold l_advance. cbn [l_rest l_cur LX]. unfold zlen at 1. rewrite Nat2Z.id.
  rewrite LexInv.skipn_push_spec by (rewrite app_length; lia). rewrite skipn_len_app, firstn_len_app.
  unfold l_emit, l_ignore, add_tok, upd_text, tk, LX. cbn [l_rest l_cur l_start l_pos l_fdepth l_ffd l_fcs l_bs l_toks].
  rewrite app_nil_r, rev_involutive. replace (q + 1 - 1 + zlen (d :: ds')) with (q + zlen (d :: ds')) by lia. reflexivity.
Qed.

Lemma lex_ok_norm s : forallb is_scalar s = true -> lex_ok 39 (flat_map norm_char s) = true.
Proof.
  intros H. destruct (spec_lex_ok 39 (or_introl eq_refl) (length (flat_map norm_char s)) (flat_map norm_char s) s (le_n _) (decode_norm_body s H)) as [A _]. exact A.
Qed.

(* the tokens of a normalized path, with their offsets *)
Definition seg_toks (k : key) (p : Z) : list token :=
  match k with
  | KName s => let body := flat_map norm_char s in
               [tk T_LBRACKET [91%N] p; tk T_SQ_STRING body (p + 2); tk T_RBRACKET [93%N] (p + zlen body + 3)]
  | KIdx i => let ds := norm_index i in
              [tk T_LBRACKET [91%N] p; tk T_INDEX ds (p + 1); tk T_RBRACKET [93%N] (p + zlen ds + 1)]
  end.
Definition seg_len (k : key) : Z := zlen (norm_seg k).
Fixpoint loc_toks (loc : list key) (p : Z) : list token :=
  match loc with
  | [] => [tk T_EOF [] p]
  | k :: loc' => seg_toks k p ++ loc_toks loc' (p + seg_len k)
  end.
Definition key_ok (k : key) : Prop := match k with KName s => forallb is_scalar s = true | KIdx i => 0 <= i end.

Lemma lex_segment k r p T : key_ok k ->
  exists n, (n <= length (norm_seg k) + 1)%nat /\
    lex_steps n SSegment (LX (norm_seg k ++ r) [] p p bs0 T)
    = LNext SSegment (LX r [] (p + seg_len k) (p + seg_len k) bs0 (rev (seg_toks k p) ++ T)).
Proof.
  intros Hk. destruct k as [s|i]; cbn [key_ok] in Hk.
  - set (body := flat_map norm_char s).
    assert (Hseg : norm_seg (KName s) ++ r = 91%N :: 39%N :: body ++ 39%N :: 93%N :: r).
    { unfold norm_seg, norm_name. fold body. cbn [app]. rewrite <- !app_assoc. reflexivity. }
    assert (Hlen : seg_len (KName s) = zlen body + 4).
    { unfold seg_len, norm_seg, norm_name. fold body. unfold zlen. repeat (rewrite ?app_length; cbn [length app]). lia. }
    set (l1 := LX (body ++ 39%N :: 93%N :: r) [39%N] (p + 1) (p + 1 + 1) ((91%N, p + 1 - 1) :: bs0) (tk T_LBRACKET [91%N] p :: T)).
    destruct (lex_string_literal 39 false l1 body (93%N :: r) (or_introl eq_refl) eq_refl (lex_ok_norm s Hk)) as [k [Hkb Hstr]].
    exists (1 + (1 + (k + 1)))%nat. split.
    { unfold norm_seg, norm_name. fold body. repeat (rewrite ?app_length; cbn [length app]). lia. }
    rewrite Hseg.
    rewrite (lex_steps_app 1 _ _ _ _ _ (eq_trans (lex_steps_1 _ _) (step_seg_open _ p T))).
    rewrite (lex_steps_app 1 _ _ _ _ _ (eq_trans (lex_steps_1 _ _) (step_bracket_quote _ (p + 1) _ _))).
    fold l1. rewrite (lex_steps_app k 1 _ _ _ _ Hstr). rewrite lex_steps_1.
    change (with_string_token l1 39 body (93%N :: r))
      with (LX (93%N :: r) [] (p + 1 + 1 + zlen body + 1) (p + 1 + 1 + zlen body + 1) ((91%N, p + 1 - 1) :: bs0)
               (tk T_SQ_STRING body (p + 1 + 1) :: tk T_LBRACKET [91%N] p :: T)).
    change (after false) with SBracket. rewrite step_bracket_close. f_equal.
    rewrite Hlen. cbn [seg_toks rev app]. fold body.
    rewrite (LX_pos r [] (p + 1 + 1 + zlen body + 1 + 1) (p + (zlen body + 4))) by lia.
    unfold LX, tk. f_equal. f_equal; [f_equal; lia | f_equal; f_equal; lia].
  - destruct (norm_index_spec i Hk) as (Hne & Hd & Hv & Hh & Hz). set (ds := norm_index i) in *.
    assert (Hseg : norm_seg (KIdx i) ++ r = 91%N :: ds ++ 93%N :: r).
    { unfold norm_seg. fold ds. cbn [app]. rewrite <- app_assoc. reflexivity. }
    assert (Hlen : seg_len (KIdx i) = zlen ds + 2).
    { unfold seg_len, norm_seg. fold ds. unfold zlen. repeat (rewrite ?app_length; cbn [length app]). lia. }
    exists 3%nat. split.
    { unfold norm_seg. fold ds. repeat (rewrite ?app_length; cbn [length app]). destruct ds; [congruence | cbn [length]; lia]. }
    rewrite Hseg.
    rewrite (lex_steps_app 1 2 _ _ _ _ (eq_trans (lex_steps_1 _ _) (step_seg_open _ p T))).
    rewrite (lex_steps_app 1 1 _ _ _ _ (eq_trans (lex_steps_1 _ _) (step_bracket_index ds r (p + 1) _ _ Hne Hd))).
    rewrite lex_steps_1, step_bracket_close. f_equal. rewrite Hlen. cbn [seg_toks rev app]. fold ds.
    rewrite (LX_pos r [] (p + 1 + zlen ds + 1) (p + (zlen ds + 2))) by lia.
    replace (p + 1 + zlen ds) with (p + zlen ds + 1) by lia. reflexivity.
Qed.

Lemma lex_segments : forall loc p T, Forall key_ok loc ->
  exists n, (n <= length (flat_map norm_seg loc) + length loc + 1)%nat /\ (1 <= n)%nat /\
    lex_steps n SSegment (LX (flat_map norm_seg loc) [] p p bs0 T)
    = LStop (LX [] [] (p + zlen (flat_map norm_seg loc)) (p + zlen (flat_map norm_seg loc)) bs0 (rev (loc_toks loc p) ++ T)).
Proof.
  induction loc as [|k loc IH]; intros p T H.
  - exists 1%nat. cbn [flat_map length loc_toks rev app]. repeat split; try lia. rewrite lex_steps_1, step_seg_eof.
    f_equal. change (zlen (@nil N)) with 0. rewrite (LX_pos [] [] (p + 0) p) by lia. reflexivity.
  - inversion H as [|k' loc' Hk Hl]; subst. cbn [flat_map loc_toks].
    destruct (lex_segment k (flat_map norm_seg loc) p T Hk) as (n1 & Hn1 & E1).
    destruct (IH (p + seg_len k) (rev (seg_toks k p) ++ T) Hl) as (n2 & Hn2 & Hn2' & E2).
    exists (n1 + n2)%nat. repeat split.
    + rewrite app_length. cbn [length]. lia.
    + lia.
    + rewrite (lex_steps_app n1 n2 _ _ _ _ E1), E2. f_equal.
      rewrite rev_app_distr, <- app_assoc.
      rewrite (LX_pos [] [] (p + seg_len k + zlen (flat_map norm_seg loc)) (p + zlen (norm_seg k ++ flat_map norm_seg loc)))
        by (unfold seg_len, zlen; rewrite app_length; lia).
      reflexivity.
Qed.

End LexGen.

Lemma lex_run_ge : forall n fuel st l l', (n <= fuel)%nat -> lex_steps n st l = LStop l' -> lex_run fuel st l = Ok l'.
Proof.
  intros n fuel st l l' Hle H. replace fuel with (n + (fuel - n))%nat by lia. apply lex_run_steps_stop. exact H.
Qed.

Theorem tokenize_norm_path loc : Forall key_ok loc ->
  m_tokenize (norm_path loc) = Ok (tk T_ROOT [36%N] 0 :: loc_toks loc 1).
Proof.
  intros H. unfold m_tokenize, norm_path.
  destruct (lex_segments 0 [] [] [] loc 1 [tk T_ROOT [36%N] 0] H) as (n & Hn & Hn1 & E).
  assert (Hrun : lex_steps (1 + n) SRoot (lexer_init (36%N :: flat_map norm_seg loc))
                 = LStop (LX 0 [] [] [] [] (1 + zlen (flat_map norm_seg loc)) (1 + zlen (flat_map norm_seg loc)) [] (rev (loc_toks loc 1) ++ [tk T_ROOT [36%N] 0]))).
  { change (lexer_init (36%N :: flat_map norm_seg loc)) with (LX 0 [] [] (36%N :: flat_map norm_seg loc) [] 0 0 [] []).
    rewrite (lex_steps_app 1 n _ _ _ _ (eq_trans (lex_steps_1 _ _) (step_root 0 [] [] _))). exact E. }
  assert (Hll : (length loc <= length (flat_map norm_seg loc))%nat).
  { clear. induction loc as [|k loc IH]; [cbn; lia|]. cbn [flat_map length]. rewrite app_length. destruct k; cbn [norm_seg length]; lia. }
  assert (Hle : (1 + n <= lex_fuel (36%N :: flat_map norm_seg loc))%nat) by (unfold lex_fuel; cbn [length]; lia).
  rewrite (lex_run_ge (1 + n) _ _ _ _ Hle Hrun).
  cbn [bind l_toks l_bs LX].
  assert (Hrev : exists t ts, rev (loc_toks loc 1) ++ [tk T_ROOT [36%N] 0] = t :: ts /\ ty t = T_EOF).
  { clear. generalize 1. induction loc as [|k loc IH]; intros p; cbn [loc_toks rev app].
    - eexists; eexists; split; reflexivity.
    - destruct (IH (p + seg_len k)) as (t & ts & Et & Hty). rewrite rev_app_distr, <- app_assoc.
      destruct (rev (loc_toks loc (p + seg_len k))) as [|t' ts'] eqn:Er.
      + exfalso. destruct loc; cbn [loc_toks] in Er; [discriminate|]. apply (f_equal (@length token)) in Er. rewrite rev_length, app_length in Er.
        destruct k0; cbn [seg_toks length] in Er; lia.
      + cbn [app] in *. inversion Et; subst. eexists; eexists; split; [reflexivity | exact Hty]. }
  destruct Hrev as (t & ts & Et & Hty). rewrite Et. rewrite Hty. change (ttype_eqb T_EOF T_ERROR) with false. cbv iota.
  rewrite <- Et. rewrite rev_app_distr, rev_involutive. reflexivity.
Qed.

(* --- E. the parser on those tokens ------------------------------------------------------------------------ *)
Definition SS (c : token) (r : list token) : stream := {| cur := c; pushed := []; rest := r |}.
Ltac zeqb := repeat match goal with |- context [Z.eqb ?a ?b] => let v := eval vm_compute in (Z.eqb a b) in change (Z.eqb a b) with v end.
Ltac ssimpl := cbn [SS adv s_next s_peek s_push after_peek peek_ty cty is_ty err_cur err_peek cur pushed rest ty tval tidx tk
                    ttype_eqb ttype_code Z.eqb Pos.eqb fst snd pbind app]; zeqb; cbn [negb orb andb]; cbv iota.

Lemma digits_val_nonneg ds : forallb isd ds = true -> 0 <= digits_val ds.
Proof.
  unfold digits_val. intros H. assert (G : forall a, 0 <= a -> 0 <= fold_left (fun a d => a * 10 + (Z.of_N d - 48)) ds a); [|apply G; lia].
  induction ds as [|d ds IH]; intros a Ha; cbn [fold_left]; [exact Ha|]. cbn [forallb] in H. apply andb_true_iff in H as [H1 H2].
  apply IH; [exact H2|]. unfold isd in H1. lia.
Qed.

Section ParseLoc.
Variable cfg : envcfg.

Lemma pl_close f v i R : p_bracket_loop cfg (S f) (SS (tk T_RBRACKET v i) R) = POk [] (SS (tk T_RBRACKET v i) R).
Proof. rewrite p_bracket_loop_S. ssimpl. reflexivity. Qed.

Lemma pl_name f body j nm v i R : decode_string_literal (tk T_SQ_STRING body j) = Ok nm ->
  p_bracket_loop cfg (S (S f)) (SS (tk T_SQ_STRING body j) (tk T_RBRACKET v i :: R))
  = POk [SName nm] (SS (tk T_RBRACKET v i) R).
Proof.
  intros H. rewrite p_bracket_loop_S. ssimpl. rewrite H. ssimpl. repeat (ssimpl; cbv zeta beta).
  change {| cur := tk T_RBRACKET v i; pushed := []; rest := R |} with (SS (tk T_RBRACKET v i) R).
  rewrite pl_close. ssimpl. reflexivity.
Qed.

Lemma pl_index f ds j v i R : ds <> [] -> forallb isd ds = true -> (0 < digits_val ds -> hd 0%N ds <> 48%N) -> (digits_val ds = 0 -> ds = [48%N]) ->
  in_range cfg (digits_val ds) = true ->
  p_bracket_loop cfg (S (S f)) (SS (tk T_INDEX ds j) (tk T_RBRACKET v i :: R))
  = POk [SIndex (digits_val ds)] (SS (tk T_RBRACKET v i) R).
Proof.
  intros Hne Hd Hh Hz Hr. rewrite p_bracket_loop_S. ssimpl. repeat (ssimpl; cbv zeta beta).
  assert (Hlead : (((1 <? zlen ds) && starts_with [48%N] ds) || starts_with [45%N; 48%N] ds) = false).
  { destruct ds as [|d ds']; [congruence|]. cbn [forallb] in Hd. apply andb_true_iff in Hd as [Hd1 H]. unfold isd in Hd1.
    unfold starts_with. cbn [andb]. assert (E45 : N.eqb 45 d = false) by lia. rewrite E45. cbn [andb orb]. rewrite orb_false_r.
    destruct (N.eqb 48 d) eqn:E48; [|rewrite andb_false_r; reflexivity]. rewrite andb_true_r. apply N.eqb_eq in E48. subst d.
    destruct (Z.eq_dec (digits_val (48%N :: ds')) 0) as [E0 | E0].
    - specialize (Hz E0). inversion Hz; subst. reflexivity.
    - exfalso. apply Hh; [|reflexivity]. assert (Hd' : forallb isd (48%N :: ds') = true) by (cbn [forallb]; rewrite H; reflexivity). pose proof (digits_val_nonneg (48%N :: ds') Hd'). lia. }
  rewrite Hlead.
  assert (Hint : int_of_index ds = digits_val ds).
  { unfold int_of_index. destruct ds as [|d ds']; [congruence|]. cbn [forallb] in Hd. apply andb_true_iff in Hd as [Hd1 _]. unfold isd in Hd1.
    destruct d as [|pd]; [reflexivity|]. repeat (destruct pd as [pd|pd|]; try reflexivity); exfalso; lia. }
  rewrite Hint, Hr. repeat (ssimpl; cbv zeta beta).
  change {| cur := tk T_RBRACKET v i; pushed := []; rest := R |} with (SS (tk T_RBRACKET v i) R).
  rewrite pl_close. ssimpl. reflexivity.
Qed.
End ParseLoc.

Section ParseLoc2.
Variable cfg : envcfg.

Definition sel_of (k : key) : sel := match k with KName s => SName s | KIdx i => SIndex i end.
Definition q_of (loc : list key) : query := map (fun k => Child [sel_of k]) loc.
Definition key_in_range (k : key) : Prop := match k with KIdx i => in_range cfg i = true | KName _ => True end.

Lemma pl_selectors f vl il x rb R sl :
  p_bracket_loop cfg f (SS x (rb :: R)) = POk [sl] (SS rb R) ->
  p_selectors cfg (S f) (SS (tk T_LBRACKET vl il) (x :: rb :: R)) = POk [sl] (SS rb R).
Proof. intros H. rewrite p_selectors_S. ssimpl. cbv zeta. ssimpl. change {| cur := x; pushed := []; rest := rb :: R |} with (SS x (rb :: R)). rewrite H. ssimpl. reflexivity. Qed.

Lemma loc_toks_cons loc p : exists t r, loc_toks loc p = t :: r.
Proof. destruct loc as [|k loc]; cbn [loc_toks]; [eauto|]. destruct k; cbn [seg_toks app]; eauto. Qed.

Lemma seg_parse k p f R : key_ok k -> key_in_range k ->
  exists lb x rb, seg_toks k p = [lb; x; rb] /\ ty lb = T_LBRACKET /\ ty rb = T_RBRACKET /\
    p_selectors cfg (S (S (S f))) (SS lb (x :: rb :: R)) = POk [sel_of k] (SS rb R).
Proof.
  intros Hk Hr. destruct k as [s|i]; cbn [key_ok key_in_range seg_toks sel_of] in *.
  - eexists; eexists; eexists. split; [reflexivity|]. split; [reflexivity|]. split; [reflexivity|].
    apply pl_selectors. apply pl_name.
    change (tk T_SQ_STRING (flat_map norm_char s) (p + 2)) with {| ty := T_SQ_STRING; tval := flat_map norm_char s; tidx := p + 2 |}.
    rewrite (decode_sq _ _ (lex_ok_norm s Hk)).
    + rewrite decode_norm_body by exact Hk. reflexivity.
    + destruct (spec_lex_ok 39 (or_introl eq_refl) _ _ s (le_n _) (decode_norm_body s Hk)) as [_ B]. exact B.
  - destruct (norm_index_spec i Hk) as (Hne & Hd & Hv & Hh & Hz).
    eexists; eexists; eexists. split; [reflexivity|]. split; [reflexivity|]. split; [reflexivity|].
    apply pl_selectors. replace (SIndex i) with (SIndex (digits_val (norm_index i))) by (rewrite Hv; reflexivity).
    apply pl_index; try assumption; rewrite Hv; assumption.
Qed.

Lemma parse_loc : forall loc p F, (length loc + 4 <= F)%nat -> Forall key_ok loc -> Forall key_in_range loc ->
  exists e, ty e = T_EOF /\ p_query cfg F false (match loc_toks loc p with t :: r => SS t r | [] => SS eof_token [] end) = POk (q_of loc) (SS e []).
Proof.
  induction loc as [|k loc IH]; intros p F HF Hk Hr.
  - destruct F as [|f]; [cbn [length] in HF; lia|]. cbn [loc_toks q_of map]. exists (tk T_EOF [] p). split; [reflexivity|].
    rewrite p_query_S. ssimpl. reflexivity.
  - inversion Hk as [|k0 l0 Hk1 Hk2]; subst. inversion Hr as [|k1 l1 Hr1 Hr2]; subst.
    destruct F as [|[|[|[|f]]]]; try (cbn [length] in HF; lia).
    destruct (loc_toks_cons loc (p + seg_len k)) as (t & r & Et).
    destruct (seg_parse k p f (t :: r) Hk1 Hr1) as (lb & x & rb & Es & Hlb & Hrb & Hsel).
    destruct (IH (p + seg_len k) (S (S (S f))) ltac:(cbn [length] in HF; lia) Hk2 Hr2) as (e & He & Hq). rewrite Et in Hq.
    exists e. split; [exact He|]. cbn [loc_toks]. rewrite Es, Et. cbn [app q_of map].
    rewrite p_query_S. destruct lb as [tlb vlb ilb]. cbn [ty] in Hlb. subst tlb. destruct rb as [trb vrb irb]. cbn [ty] in Hrb. subst trb.
    ssimpl. change {| cur := {| ty := T_LBRACKET; tval := vlb; tidx := ilb |}; pushed := []; rest := x :: {| ty := T_RBRACKET; tval := vrb; tidx := irb |} :: t :: r |}
      with (SS (tk T_LBRACKET vlb ilb) (x :: tk T_RBRACKET vrb irb :: t :: r)).
    rewrite Hsel. ssimpl. change {| cur := t; pushed := []; rest := r |} with (SS t r). fold (q_of loc). rewrite Hq. ssimpl. reflexivity.
Qed.

Lemma loc_toks_length : forall loc p, length (loc_toks loc p) = (3 * length loc + 1)%nat.
Proof. induction loc as [|k loc IH]; intros p; cbn [loc_toks length]; [reflexivity|]. rewrite app_length, IH. destruct k; cbn [seg_toks length]; lia. Qed.

Theorem compile_norm_path loc : Forall key_ok loc -> Forall key_in_range loc ->
  m_compile cfg (norm_path loc) = Ok (q_of loc).
Proof.
  intros Hk Hr. unfold m_compile. rewrite (tokenize_norm_path loc Hk). cbn [bind]. unfold p_parse. cbv zeta.
  destruct (loc_toks_cons loc 1) as (t & r & Et).
  destruct (parse_loc loc 1 (parse_fuel (tk T_ROOT [36%N] 0 :: loc_toks loc 1)) ltac:(unfold parse_fuel; cbn [length]; rewrite loc_toks_length; lia) Hk Hr) as (e & He & Hq).
  rewrite Et in Hq. unfold stream_init. rewrite Et. ssimpl.
  change {| cur := t; pushed := []; rest := r |} with (SS t r). rewrite Hq. ssimpl.
  destruct e as [te ve ie]. cbn [ty] in He. subst te. ssimpl. reflexivity.
Qed.
End ParseLoc2.

(* --- F. the evaluator on the compiled path -------------------------------------------------------------- *)
Section EvalLoc.
Variable cfg : envcfg.

Lemma m_seg_child1 root s n a : m_sel cfg root s n = Ok a -> m_seg cfg root (Child [s]) [n] = Ok a.
Proof.
  intros H.
  change (m_seg cfg root (Child [s]) [n]) with
    (do y <- (do a0 <- m_sel cfg root s n; do b <- Ok []; Ok (a0 ++ b)); do ys <- Ok []; Ok (y ++ ys)).
  rewrite H. cbn [bind]. rewrite !app_nil_r. reflexivity.
Qed.
Lemma m_sel_name root k n : m_sel cfg root (SName k) n =
  match snd n with
  | JObj m => match find_assoc k m with Some v => Ok [mk_child n (KName k) v] | None => Ok [] end
  | _ => Ok []
  end.
Proof. reflexivity. Qed.
Lemma m_sel_index root i n : m_sel cfg root (SIndex i) n =
  match snd n with
  | JArr l => Ok (map (fun p => mk_child n (KIdx (fst p)) (snd p)) (m_index_select l i))
  | _ => Ok []
  end.
Proof. reflexivity. Qed.

Lemma find_loc root : forall loc pre v x, lookup v loc = Some x ->
  m_segs cfg root (q_of loc) [(pre, v)] = Ok [(pre ++ loc, x)].
Proof.
  induction loc as [|k loc IH]; intros pre v x H.
  - cbn [lookup] in H. inversion H; subst. rewrite app_nil_r. reflexivity.
  - unfold m_segs in *. cbn [q_of map run_segs]. fold (q_of loc). destruct k as [s|i]; cbn [lookup sel_of] in *.
    + destruct v as [| | | | |m]; try discriminate. destruct (find_assoc s m) as [y|] eqn:Ef; [|discriminate].
      assert (E : m_seg cfg root (Child [SName s]) [(pre, JObj m)] = Ok [(pre ++ [KName s], y)])
        by (apply m_seg_child1; rewrite m_sel_name; cbn [snd]; rewrite Ef; reflexivity).
      rewrite E. cbn [bind]. rewrite (IH (pre ++ [KName s]) y x H), <- app_assoc. reflexivity.
    + destruct v as [| | | |l|]; try discriminate. destruct (znth l i) as [y|] eqn:Ez; [|discriminate].
      assert (Hi : 0 <= i). { unfold znth in Ez. destruct (i <? 0) eqn:E; [discriminate | lia]. }
      assert (E : m_seg cfg root (Child [SIndex i]) [(pre, JArr l)] = Ok [(pre ++ [KIdx i], y)]).
      2:{ rewrite E. cbn [bind]. rewrite (IH (pre ++ [KIdx i]) y x H), <- app_assoc. reflexivity. }
      apply m_seg_child1.
      * rewrite m_sel_index. cbn [snd]. unfold m_index_select, py_list_getitem, m_normalized_index.
        assert (E : (i <? 0) = false) by lia. rewrite E, Ez. cbn [andb map fst snd]. reflexivity.
Qed.

Theorem requery v loc x : lookup v loc = Some x -> Forall key_ok loc -> Forall (key_in_range cfg) loc ->
  m_env_find cfg (norm_path loc) v = Ok [(loc, x)].
Proof.
  intros H Hk Hr. unfold m_env_find. rewrite (compile_norm_path cfg loc Hk Hr). cbn [bind]. unfold m_find.
  exact (find_loc v loc [] v x H).
Qed.
End EvalLoc.
