(* C12 with filters, lexer side: the lexer on the canonical text str() gives for a query with filter selectors.
   (The lexer lemmas of Proofs/Requery.v and Proofs/Reparse.v hold for any filter bookkeeping; here: the filter state.) *)
From JP Require Import Base.Json Model.Regex Model.Tokens Model.Lex Model.Ast Model.Parse Model.Serialize Model.Api.
From JP Require Import Spec.StringLit Spec.NormPath Spec.Types Spec.Printable Proofs.StringProofs Proofs.LexString Proofs.LexInv Proofs.Requery Proofs.Reparse Proofs.NumMatch Proofs.ParseComplete.

(* --- regular expressions of the filter state ----------------------------------------------------------------------------------- *)
Definition fname_ok (f : str) : Prop :=
  exists c cs, f = c :: cs /\ in_ranges c cls_fn_first = true /\ forallb (fun x => in_ranges x cls_fn_char) cs = true.

Lemma fname_match c cs rest : in_ranges c cls_fn_first = true -> forallb (fun x => in_ranges x cls_fn_char) cs = true ->
  match rest with x :: _ => in_ranges x cls_fn_char = false | [] => True end ->
  re_match RE_FUNCTION_NAME ((c :: cs) ++ rest) = Some (zlen (c :: cs)).
Proof.
  intros Hc Hcs Hr. unfold re_match. set (s := (c :: cs) ++ rest).
  replace (8 * length s + 64)%nat with (S (S (8 * length s + 62)))%nat by lia.
  unfold RE_FUNCTION_NAME. subst s. cbn [app]. rewrite rm_seq_S, rm_class_S. fold cls_fn_first. rewrite Hc. cbn [xorb]. fold cls_fn_char.
  rewrite (star_class cls_fn_char cs _ (0 + 1) rest (fun _ n => Some n) (zlen (c :: cs))); [reflexivity | exact Hcs | exact Hr | | ].
  - cbn [length app]. rewrite app_length. lia.
  - f_equal. unfold zlen. cbn [length]. lia.
Qed.
Lemma fname_nomatch c r : in_ranges c cls_fn_first = false -> re_match RE_FUNCTION_NAME (c :: r) = None.
Proof.
  intros H. unfold re_match. set (s := c :: r). replace (8 * length s + 64)%nat with (S (S (8 * length s + 62)))%nat by lia.
  unfold RE_FUNCTION_NAME. subst s. rewrite rm_seq_S, rm_class_S. fold cls_fn_first. rewrite H. reflexivity.
Qed.

Definition intfol (c : N) : Prop := c = 32%N \/ c = 41%N \/ c = 93%N \/ c = 44%N.

Lemma intfol_facts c : intfol c -> isd c = false /\ in_ranges c [(101, 101); (69, 69)]%N = false /\ in_ranges c [(46, 46)]%N = false
  /\ in_ranges c cls_digit = false /\ in_ranges c [(45, 45)]%N = false /\ in_ranges c [(58, 58)]%N = false.
Proof. intros [-> | [-> | [-> | ->]]]; repeat split; reflexivity. Qed.
(* the INT pattern on a printed integer followed by a blank, a closing bracket or a comma *)
Lemma int_match sign body c r : (sign = [] \/ sign = [45%N]) -> body <> [] -> forallb isd body = true -> intfol c ->
  re_match RE_INT ((sign ++ body) ++ c :: r) = Some (zlen (sign ++ body)).
Proof.
  intros Hs Hne Hd Hc. destruct (intfol_facts c Hc) as (_ & HcE & _ & HcD & _).
  destruct body as [|d ds']; [congruence|]. cbn [forallb] in Hd. apply andb_true_iff in Hd as [Hd1 Hd2].
  destruct (digit_facts d Hd1) as (Ed & _ & _ & E45 & _).
  assert (Hds : forallb (fun x => in_ranges x cls_digit) ds' = true).
  { rewrite forallb_forall in *. intros x Hx. apply (digit_facts x (Hd2 x Hx)). }
  unfold re_match. set (s := (sign ++ d :: ds') ++ c :: r).
  replace (8 * length s + 64)%nat with (S (S (S (S (S (S (S (S (8 * length s + 56)))))))))%nat by lia.
  unfold RE_INT, re_minus_opt, re_digits, re_eE, ROpt, RPlus, RChar. subst s.
  assert (Hk : forall F n, (4 <= F)%nat -> rm F (RAlt (RSeq (RClass false [(101, 101); (69, 69)]%N)
                 (RSeq (RAlt (RClass false [(43, 43)]%N) REps) (RSeq (RClass false cls_digit) (RStar (RClass false cls_digit))))) REps) (c :: r) n (fun _ n0 => Some n0) = Some n).
  { intros F n HF. destruct F as [|[|[|F]]]; try lia. rewrite rm_alt_S, rm_seq_S, rm_class_S, HcE. cbn [xorb]. rewrite rm_eps_S. reflexivity. }
  destruct Hs as [-> | ->]; cbn [app].
  - rewrite rm_seq_S, rm_alt_S, rm_class_S, E45. cbn [xorb]. rewrite rm_eps_S, rm_seq_S, rm_seq_S, rm_class_S, Ed. cbn [xorb].
    rewrite (star_class cls_digit ds' _ (0 + 1) (c :: r) _ (zlen (d :: ds'))); [reflexivity | exact Hds | exact HcD | cbn [length app]; rewrite app_length; cbn [length]; lia |].
    rewrite Hk by (cbn [length app]; lia). f_equal. unfold zlen. cbn [length]. lia.
  - rewrite rm_seq_S, rm_alt_S, rm_class_S. change (in_ranges 45 [(45, 45)]%N) with true. cbn [xorb]. rewrite rm_seq_S, rm_seq_S, rm_class_S, Ed. cbn [xorb].
    rewrite (star_class cls_digit ds' _ (0 + 1 + 1) (c :: r) _ (zlen (45%N :: d :: ds'))); [reflexivity | exact Hds | exact HcD | cbn [length app]; rewrite app_length; cbn [length]; lia |].
    rewrite Hk by (cbn [length app]; lia). f_equal. unfold zlen. cbn [length]. lia.
Qed.

(* digits+ followed by something that does not begin where the digits may stop: no match *)
Lemma float_nomatch sign body c r : (sign = [] \/ sign = [45%N]) -> body <> [] -> forallb isd body = true -> intfol c ->
  re_match RE_FLOAT ((sign ++ body) ++ c :: r) = None.
Proof.
  intros Hs Hne Hd Hc. destruct (intfol_facts c Hc) as (_ & HcE & Hc46 & HcD & Hc45 & Hc58).
  assert (Hhd : forall x, (isd x = true \/ x = c) -> in_ranges x [(101, 101); (69, 69)]%N = false /\ in_ranges x [(46, 46)]%N = false).
  { intros x [Hx | ->]; [destruct (digit_facts x Hx) as (_ & A & B & _); split; assumption | split; assumption]. }
  (* after the digits a '.' (first alternative) or an exponent mark (second) is required *)
  assert (K1 : forall F (K : list N -> Z -> option Z) R x tl n', (isd x = true \/ x = c) -> rm F (RSeq (RClass false [(46, 46)]%N) R) (x :: tl) n' K = None).
  { intros F K R x tl n' Hx. destruct F as [|[|F]]; try reflexivity. rewrite rm_seq_S, rm_class_S. rewrite (proj2 (Hhd x Hx)). reflexivity. }
  assert (K2 : forall F (K : list N -> Z -> option Z) R x tl n', (isd x = true \/ x = c) -> rm F (RSeq (RClass false [(101, 101); (69, 69)]%N) R) (x :: tl) n' K = None).
  { intros F K R x tl n' Hx. destruct F as [|[|F]]; try reflexivity. rewrite rm_seq_S, rm_class_S. rewrite (proj1 (Hhd x Hx)). reflexivity. }
  destruct body as [|d ds']; [congruence|]. pose proof Hd as Hd0. cbn [forallb] in Hd. apply andb_true_iff in Hd as [Hd1 _].
  destruct (digit_facts d Hd1) as (Ed & _ & _ & E45 & E58).
  unfold re_match. set (F := (8 * length ((sign ++ d :: ds') ++ c :: r) + 64)%nat). clearbody F.
  unfold RE_FLOAT, re_minus_opt, re_digits, re_eE, ROpt, RPlus, RChar.
  destruct F as [|F]; [reflexivity|]. rewrite rm_alt_S.
  (* the minus sign, if any: both ways of reading it fail *)
  assert (A : forall F R, (forall F' x tl n' K, (isd x = true \/ x = c) -> rm F' R (x :: tl) n' K = None) ->
              forall n K, rm F (RSeq (RAlt (RClass false [(45, 45)]%N) REps) (RSeq (RSeq (RClass false cls_digit) (RStar (RClass false cls_digit))) R)) ((sign ++ d :: ds') ++ c :: r) n K = None).
  { intros F0 R HR n K. destruct F0 as [|F0]; [reflexivity|]. rewrite rm_seq_S. destruct F0 as [|F0]; [reflexivity|]. rewrite rm_alt_S.
    assert (Hdig : forall F1 (l : list N) n1, forallb isd l = true -> rm F1 (RSeq (RSeq (RClass false cls_digit) (RStar (RClass false cls_digit))) R) (l ++ c :: r) n1 K = None).
    { intros F1 l n1 Hl. destruct F1 as [|F1]; [reflexivity|]. rewrite rm_seq_S. apply digits_then_fail; [exact Hl | exact HcD|]. intros x tl n' Hx. apply HR. exact Hx. }
    destruct Hs as [-> | ->]; cbn [app].
    - destruct F0 as [|F0]; [reflexivity|]. rewrite rm_class_S, E45. cbn [xorb]. destruct F0 as [|F0]; [reflexivity|]. rewrite rm_eps_S.
      apply (Hdig _ (d :: ds') n Hd0).
    - destruct F0 as [|F0]; [reflexivity|]. rewrite rm_class_S. change (in_ranges 45 [(45, 45)]%N) with true. cbn [xorb].
      rewrite (Hdig _ (d :: ds') (n + 1) Hd0). destruct F0 as [|F0]; [reflexivity|]. rewrite rm_eps_S.
      destruct F0 as [|F0]; [reflexivity|]. rewrite rm_seq_S. destruct F0 as [|F0]; [reflexivity|]. rewrite rm_seq_S. destruct F0 as [|F0]; [reflexivity|]. rewrite rm_class_S. reflexivity. }
  assert (E1 : rm F (RSeq (RAlt (RClass false [(58, 58)]%N) REps)
                 (RSeq (RAlt (RClass false [(45, 45)]%N) REps) (RSeq (RSeq (RClass false cls_digit) (RStar (RClass false cls_digit)))
                   (RSeq (RClass false [(46, 46)]%N) (RSeq (RSeq (RClass false cls_digit) (RStar (RClass false cls_digit)))
                     (RAlt (RSeq (RClass false [(101, 101); (69, 69)]%N) (RSeq (RAlt (RClass false [(43, 43); (45, 45)]%N) REps) (RSeq (RClass false cls_digit) (RStar (RClass false cls_digit))))) REps))))))
              ((sign ++ d :: ds') ++ c :: r) 0 (fun _ n => Some n) = None).
  { destruct F as [|F]; [reflexivity|]. rewrite rm_seq_S. destruct F as [|F]; [reflexivity|]. rewrite rm_alt_S.
    assert (E58' : forall F1 K1', rm F1 (RClass false [(58, 58)]%N) ((sign ++ d :: ds') ++ c :: r) 0 K1' = None).
    { intros F1 K1'. destruct F1 as [|F1]; [reflexivity|]. rewrite rm_class_S. destruct Hs as [-> | ->]; cbn [app]; [rewrite E58 | ]; reflexivity. }
    rewrite E58'. destruct F as [|F]; [reflexivity|]. rewrite rm_eps_S. apply A. intros F' x tl n' K Hx. apply K1. exact Hx. }
  rewrite E1. apply A. intros F' x tl n' K Hx. apply K2. exact Hx.
Qed.

(* --- single steps of the filter state, for any bookkeeping ---------------------------------------------------------------------- *)
Notation GX := Requery.LX.

Lemma sfilter_ws fd ffd fcs c r p bs T : in_ranges c ws_ranges = false ->
  lex_step Lex.SFilter (GX fd ffd fcs (32%N :: c :: r) [] p p bs T) = lex_step Lex.SFilter (GX fd ffd fcs (c :: r) [] (p + 1) (p + 1) bs T).
Proof.
  intros H. cbn [lex_step]. rewrite (ignore_ws_nonws fd ffd fcs c r (p + 1) bs T H).
  assert (E : l_ignore_ws (GX fd ffd fcs (32%N :: c :: r) [] p p bs T) = Some (true, GX fd ffd fcs (c :: r) [] (p + 1) (p + 1) bs T)).
  { unfold l_ignore_ws, l_accept_match. cbn [l_cur l_rest LX]. rewrite (ws_match1 c r H). reflexivity. }
  rewrite E. reflexivity.
Qed.
Lemma ssegment_ws fd ffd fcs c r p bs T : in_ranges c ws_ranges = false -> c <> 46%N -> c <> 91%N -> fd <> 0 ->
  lex_step SSegment (GX fd ffd fcs (32%N :: c :: r) [] p p bs T) = LNext Lex.SFilter (GX fd ffd fcs (c :: r) [] (p + 1) (p + 1 + 1 - 1) bs T).
Proof.
  intros H H46 H91 Hfd. cbn [lex_step].
  assert (E : l_ignore_ws (GX fd ffd fcs (32%N :: c :: r) [] p p bs T) = Some (true, GX fd ffd fcs (c :: r) [] (p + 1) (p + 1) bs T)).
  { unfold l_ignore_ws, l_accept_match. cbn [l_cur l_rest LX]. rewrite (ws_match1 c r H). reflexivity. }
  rewrite E. cbn [l_peek l_rest LX andb]. cbn [l_next l_rest LX upd_text l_cur l_start l_pos l_fdepth l_ffd l_fcs l_bs l_toks].
  assert (E1 : N.eqb c 46 = false) by (apply N.eqb_neq; exact H46). assert (E2 : N.eqb c 91 = false) by (apply N.eqb_neq; exact H91).
  rewrite E1, E2. assert (E3 : (fd =? 0) = false) by (apply Z.eqb_neq; exact Hfd). rewrite E3. reflexivity.
Qed.
Lemma ssegment_nows fd ffd fcs c r p bs T : in_ranges c ws_ranges = false -> c <> 46%N -> c <> 91%N -> fd <> 0 ->
  lex_step SSegment (GX fd ffd fcs (c :: r) [] p p bs T) = LNext Lex.SFilter (GX fd ffd fcs (c :: r) [] p (p + 1 - 1) bs T).
Proof.
  intros H H46 H91 Hfd. cbn [lex_step]. rewrite (ignore_ws_nonws fd ffd fcs c r p bs T H).
  cbn [l_peek l_rest LX andb]. cbn [l_next l_rest LX upd_text l_cur l_start l_pos l_fdepth l_ffd l_fcs l_bs l_toks].
  assert (E1 : N.eqb c 46 = false) by (apply N.eqb_neq; exact H46). assert (E2 : N.eqb c 91 = false) by (apply N.eqb_neq; exact H91).
  rewrite E1, E2. assert (E3 : (fd =? 0) = false) by (apply Z.eqb_neq; exact Hfd). rewrite E3. reflexivity.
Qed.

Lemma GX_pos fd ffd fcs rest cur p p' bs T : p = p' -> GX fd ffd fcs rest cur p p bs T = GX fd ffd fcs rest cur p' p' bs T.
Proof. intros ->. reflexivity. Qed.
Lemma GX_pos2 fd ffd fcs rest cur s p p' bs T : p = p' -> GX fd ffd fcs rest cur s p bs T = GX fd ffd fcs rest cur s p' bs T.
Proof. intros ->. reflexivity. Qed.

Lemma sf_close fd d ffd fcs r p bs T : lex_step Lex.SFilter (GX fd (d :: ffd) fcs (93%N :: r) [] p p bs T)
  = LNext SBracket (GX (fd - 1) ffd fcs (93%N :: r) [] p (p + 1 - 1) bs T).
Proof. cbn [lex_step]. rewrite ignore_ws_nonws by reflexivity. reflexivity. Qed.
Lemma sf_comma_in fd d ffd fcs r p bs T : (d <? zlen fcs) = true -> lex_step Lex.SFilter (GX fd (d :: ffd) fcs (44%N :: r) [] p p bs T)
  = LNext Lex.SFilter (GX fd (d :: ffd) fcs r [] (p + 1) (p + 1) bs (tk T_COMMA [44%N] p :: T)).
Proof. intros H. cbn [lex_step]. rewrite ignore_ws_nonws by reflexivity. cbn. rewrite H. reflexivity. Qed.
Lemma sf_comma_out fd d ffd fcs r p bs T : (d <? zlen fcs) = false -> lex_step Lex.SFilter (GX fd (d :: ffd) fcs (44%N :: r) [] p p bs T)
  = LNext SBracket (GX (fd - 1) ffd fcs r [] (p + 1) (p + 1) bs (tk T_COMMA [44%N] p :: T)).
Proof. intros H. cbn [lex_step]. rewrite ignore_ws_nonws by reflexivity. cbn. rewrite H. reflexivity. Qed.
Lemma sf_quote fd ffd fcs r p bs T : lex_step Lex.SFilter (GX fd ffd fcs (39%N :: r) [] p p bs T) = LNext (SString 39 true) (GX fd ffd fcs r [39%N] p (p + 1) bs T).
Proof. cbn [lex_step]. rewrite ignore_ws_nonws by reflexivity. reflexivity. Qed.
Lemma sf_lparen fd ffd fcs r p bs T : lex_step Lex.SFilter (GX fd ffd fcs (40%N :: r) [] p p bs T)
  = LNext Lex.SFilter (GX fd ffd (match fcs with n :: fcs' => n + 1 :: fcs' | [] => [] end) r [] (p + 1) (p + 1) ((40%N, p + 1 - 1) :: bs) (tk T_LPAREN [40%N] p :: T)).
Proof. cbn [lex_step]. rewrite ignore_ws_nonws by reflexivity. destruct fcs; reflexivity. Qed.
Lemma sf_rparen fd ffd fcs r p i bs T : lex_step Lex.SFilter (GX fd ffd fcs (41%N :: r) [] p p ((40%N, i) :: bs) T)
  = LNext Lex.SFilter (GX fd ffd (match fcs with n :: fcs' => if n =? 1 then fcs' else n - 1 :: fcs' | [] => [] end) r [] (p + 1) (p + 1) bs (tk T_RPAREN [41%N] p :: T)).
Proof. cbn [lex_step]. rewrite ignore_ws_nonws by reflexivity. destruct fcs; reflexivity. Qed.
Lemma sf_root fd ffd fcs r p bs T : lex_step Lex.SFilter (GX fd ffd fcs (36%N :: r) [] p p bs T) = LNext SSegment (GX fd ffd fcs r [] (p + 1) (p + 1) bs (tk T_ROOT [36%N] p :: T)).
Proof. cbn [lex_step]. rewrite ignore_ws_nonws by reflexivity. reflexivity. Qed.
Lemma sf_current fd ffd fcs r p bs T : lex_step Lex.SFilter (GX fd ffd fcs (64%N :: r) [] p p bs T) = LNext SSegment (GX fd ffd fcs r [] (p + 1) (p + 1) bs (tk T_CURRENT [64%N] p :: T)).
Proof. cbn [lex_step]. rewrite ignore_ws_nonws by reflexivity. reflexivity. Qed.
Lemma sf_not fd ffd fcs c r p bs T : c <> 61%N -> lex_step Lex.SFilter (GX fd ffd fcs (33%N :: c :: r) [] p p bs T)
  = LNext Lex.SFilter (GX fd ffd fcs (c :: r) [] (p + 1) (p + 1) bs (tk T_NOT [33%N] p :: T)).
Proof.
  intros H. cbn [lex_step]. rewrite ignore_ws_nonws by reflexivity. cbn [l_next l_rest LX upd_text l_cur l_start l_pos l_fdepth l_ffd l_fcs l_bs l_toks].
  change (N.eqb 33 93) with false. change (N.eqb 33 44) with false. change (N.eqb 33 39) with false. change (N.eqb 33 34) with false. change (N.eqb 33 40) with false.
  change (N.eqb 33 41) with false. change (N.eqb 33 36) with false. change (N.eqb 33 64) with false. change (N.eqb 33 46) with false. change (N.eqb 33 33) with true. cbv iota.
  unfold emit2, ceq, l_peek. cbn [l_rest upd_text]. assert (E : N.eqb c 61 = false) by (apply N.eqb_neq; exact H). rewrite E. reflexivity.
Qed.

(* everything the filter state does not recognise by its first character *)
Definition sf_tail (l2 : lexer) : lexout :=
  let '(b0, a0) := l_accept_match RE_FUNCTION_NAME l2 in
  if b0 && ceq (l_peek a0) 40 then
    let l3 := set_stacks a0 (l_fdepth a0) (l_ffd a0) (1 :: l_fcs a0) (l_bs a0) in
    let l4 := l_emit T_FUNCTION l3 in
    let l5 := push_bracket 40 (l_pos l4) l4 in
    LNext Lex.SFilter (l_ignore (snd (l_next l5)))
  else
  let '(b1, a1) := l_accept [38; 38]%N l2 in if b1 then LNext Lex.SFilter (l_emit T_AND a1) else
  let '(b2, a2) := l_accept [124; 124]%N l2 in if b2 then LNext Lex.SFilter (l_emit T_OR a2) else
  let '(b3, a3) := l_accept s_true l2 in if b3 then LNext Lex.SFilter (l_emit T_TRUE a3) else
  let '(b4, a4) := l_accept s_false l2 in if b4 then LNext Lex.SFilter (l_emit T_FALSE a4) else
  let '(b5, a5) := l_accept s_null l2 in if b5 then LNext Lex.SFilter (l_emit T_NULL a5) else
  let '(b6, a6) := l_accept_match RE_FLOAT l2 in if b6 then LNext Lex.SFilter (l_emit T_FLOAT a6) else
  let '(b7, a7) := l_accept_match RE_INT l2 in if b7 then LNext Lex.SFilter (l_emit T_INT a7) else
  l_error l2.

Definition sf_special (c : N) : bool :=
  N.eqb c 93 || N.eqb c 44 || N.eqb c 39 || N.eqb c 34 || N.eqb c 40 || N.eqb c 41 || N.eqb c 36 || N.eqb c 64 || N.eqb c 46
  || N.eqb c 33 || N.eqb c 61 || N.eqb c 60 || N.eqb c 62.

Lemma sf_else fd ffd fcs c r p bs T : in_ranges c ws_ranges = false -> sf_special c = false ->
  lex_step Lex.SFilter (GX fd ffd fcs (c :: r) [] p p bs T) = sf_tail (GX fd ffd fcs (c :: r) [] p (p + 1 - 1) bs T).
Proof.
  intros Hw Hs. cbn [lex_step]. rewrite (ignore_ws_nonws fd ffd fcs c r p bs T Hw).
  cbn [l_next l_rest LX upd_text l_cur l_start l_pos l_fdepth l_ffd l_fcs l_bs l_toks].
  unfold sf_special in Hs.
  apply orb_false_iff in Hs as [Hs E12].
  apply orb_false_iff in Hs as [Hs E11].
  apply orb_false_iff in Hs as [Hs E10].
  apply orb_false_iff in Hs as [Hs E9].
  apply orb_false_iff in Hs as [Hs E8].
  apply orb_false_iff in Hs as [Hs E7].
  apply orb_false_iff in Hs as [Hs E6].
  apply orb_false_iff in Hs as [Hs E5].
  apply orb_false_iff in Hs as [Hs E4].
  apply orb_false_iff in Hs as [Hs E3].
  apply orb_false_iff in Hs as [Hs E2].
  apply orb_false_iff in Hs as [Hs E1].
  rewrite Hs, E1, E2, E3, E4, E5, E6, E7, E8, E9, E10, E11, E12. reflexivity.
Qed.

Lemma advance_app fd ffd fcs (a b : list N) cur s p bs T :
  l_advance (GX fd ffd fcs (a ++ b) cur s p bs T) (zlen a) = GX fd ffd fcs b (rev a ++ cur) s (p + zlen a) bs T.
Proof.
  unfold l_advance. cbn [l_rest l_cur LX]. unfold zlen at 1. rewrite Nat2Z.id.
  assert (E : forall (a b cur : list N), skipn_push (length a) (a ++ b) cur = (b, rev a ++ cur)).
  { clear. induction a as [|x a IH]; intros b cur; [reflexivity|]. cbn [length app skipn_push rev]. rewrite IH, <- app_assoc. reflexivity. }
  rewrite E. reflexivity.
Qed.
Lemma emit_GX fd ffd fcs rest cur s p bs T ty0 : l_emit ty0 (GX fd ffd fcs rest cur s p bs T) = GX fd ffd fcs rest [] p p bs (tk ty0 (rev cur) s :: T).
Proof. reflexivity. Qed.

(* keywords and the two logical operators: a fixed text w at the head, which the function-name pattern does not turn into a call *)
Lemma sf_word fd ffd fcs (w : list N) c0 w' r p bs T ty0 :
  w = c0 :: w' -> in_ranges c0 ws_ranges = false -> sf_special c0 = false ->
  (forall l2, l_rest l2 = w ++ r -> (let '(b0, a0) := l_accept_match RE_FUNCTION_NAME l2 in b0 && ceq (l_peek a0) 40) = false) ->
  (forall l2, l_rest l2 = w ++ r ->
     (let '(b1, a1) := l_accept [38; 38]%N l2 in if b1 then LNext Lex.SFilter (l_emit T_AND a1) else
      let '(b2, a2) := l_accept [124; 124]%N l2 in if b2 then LNext Lex.SFilter (l_emit T_OR a2) else
      let '(b3, a3) := l_accept s_true l2 in if b3 then LNext Lex.SFilter (l_emit T_TRUE a3) else
      let '(b4, a4) := l_accept s_false l2 in if b4 then LNext Lex.SFilter (l_emit T_FALSE a4) else
      let '(b5, a5) := l_accept s_null l2 in if b5 then LNext Lex.SFilter (l_emit T_NULL a5) else
      let '(b6, a6) := l_accept_match RE_FLOAT l2 in if b6 then LNext Lex.SFilter (l_emit T_FLOAT a6) else
      let '(b7, a7) := l_accept_match RE_INT l2 in if b7 then LNext Lex.SFilter (l_emit T_INT a7) else
      l_error l2) = LNext Lex.SFilter (l_emit ty0 (l_advance l2 (zlen w)))) ->
  exists q, lex_step Lex.SFilter (GX fd ffd fcs (w ++ r) [] p p bs T) = LNext Lex.SFilter (GX fd ffd fcs r [] q q bs (tk ty0 w p :: T)).
Proof.
  intros -> Hw Hs Hfn Hrest. cbn [app]. rewrite (sf_else fd ffd fcs c0 (w' ++ r) p bs T Hw Hs). unfold sf_tail.
  set (l2 := GX fd ffd fcs (c0 :: w' ++ r) [] p (p + 1 - 1) bs T).
  specialize (Hfn l2 eq_refl). specialize (Hrest l2 eq_refl).
  destruct (l_accept_match RE_FUNCTION_NAME l2) as [b0 a0]. rewrite Hfn. rewrite Hrest.
  unfold l2. change (c0 :: w' ++ r) with ((c0 :: w') ++ r). rewrite advance_app, emit_GX. rewrite app_nil_r, rev_involutive. eexists. reflexivity.
Qed.

Lemma peek_advance (l2 : lexer) (a b : list N) : l_rest l2 = a ++ b -> l_peek (l_advance l2 (zlen a)) = match b with x :: _ => Some x | [] => None end.
Proof.
  intros E. unfold l_advance, l_peek. rewrite E. unfold zlen. rewrite Nat2Z.id.
  assert (H : forall (a b cur : list N), skipn_push (length a) (a ++ b) cur = (b, rev a ++ cur)).
  { clear. induction a as [|x a IH]; intros b cur; [reflexivity|]. cbn [length app skipn_push rev]. rewrite IH, <- app_assoc. reflexivity. }
  rewrite H. reflexivity.
Qed.
Lemma accept_prefix (l2 : lexer) (w r : list N) : l_rest l2 = w ++ r -> l_accept w l2 = (true, l_advance l2 (zlen w)).
Proof.
  intros E. unfold l_accept. rewrite E. assert (H : is_prefix w (w ++ r) = true) by (clear; induction w as [|x w IH]; [reflexivity|]; cbn [is_prefix app]; rewrite N.eqb_refl, IH; reflexivity).
  rewrite H. reflexivity.
Qed.
Lemma accept_mismatch (l2 : lexer) x w' c r : l_rest l2 = c :: r -> x <> c -> l_accept (x :: w') l2 = (false, l2).
Proof. intros E H. unfold l_accept. rewrite E. cbn [is_prefix]. assert (N.eqb x c = false) by (apply N.eqb_neq; exact H). rewrite H0. reflexivity. Qed.
Lemma fn_nomatch_l (l2 : lexer) c r : l_rest l2 = c :: r -> in_ranges c cls_fn_first = false ->
  (let '(b0, a0) := l_accept_match RE_FUNCTION_NAME l2 in b0 && ceq (l_peek a0) 40) = false.
Proof. intros E H. unfold l_accept_match. rewrite E, (fname_nomatch c r H). reflexivity. Qed.
Lemma fn_match_nocall (l2 : lexer) c cs x r : l_rest l2 = (c :: cs) ++ x :: r -> in_ranges c cls_fn_first = true ->
  forallb (fun y => in_ranges y cls_fn_char) cs = true -> in_ranges x cls_fn_char = false -> x <> 40%N ->
  (let '(b0, a0) := l_accept_match RE_FUNCTION_NAME l2 in b0 && ceq (l_peek a0) 40) = false.
Proof.
  intros E Hc Hcs Hx Hx40. unfold l_accept_match. rewrite E, (fname_match c cs (x :: r) Hc Hcs Hx).
  rewrite (peek_advance l2 (c :: cs) (x :: r) E). cbn [andb ceq]. apply N.eqb_neq. exact Hx40.
Qed.

Lemma sf_and fd ffd fcs r p bs T : exists q, lex_step Lex.SFilter (GX fd ffd fcs ([38; 38]%N ++ r) [] p p bs T)
  = LNext Lex.SFilter (GX fd ffd fcs r [] q q bs (tk T_AND [38; 38]%N p :: T)).
Proof.
  apply (sf_word fd ffd fcs [38; 38]%N 38%N [38%N] r p bs T T_AND eq_refl eq_refl eq_refl).
  - intros l2 E. apply (fn_nomatch_l l2 38%N (38%N :: r) E eq_refl).
  - intros l2 E. rewrite (accept_prefix l2 [38; 38]%N r E). reflexivity.
Qed.
Lemma sf_or fd ffd fcs r p bs T : exists q, lex_step Lex.SFilter (GX fd ffd fcs ([124; 124]%N ++ r) [] p p bs T)
  = LNext Lex.SFilter (GX fd ffd fcs r [] q q bs (tk T_OR [124; 124]%N p :: T)).
Proof.
  apply (sf_word fd ffd fcs [124; 124]%N 124%N [124%N] r p bs T T_OR eq_refl eq_refl eq_refl).
  - intros l2 E. apply (fn_nomatch_l l2 124%N (124%N :: r) E eq_refl).
  - intros l2 E. rewrite (accept_mismatch l2 38%N [38%N] 124%N (124%N :: r) E ltac:(discriminate)). rewrite (accept_prefix l2 [124; 124]%N r E). reflexivity.
Qed.

Lemma intfol_notfn x : intfol x -> in_ranges x cls_fn_char = false /\ x <> 40%N.
Proof. intros [-> | [-> | [-> | ->]]]; split; try reflexivity; discriminate. Qed.

Lemma sf_true fd ffd fcs x r p bs T : intfol x -> exists q, lex_step Lex.SFilter (GX fd ffd fcs (s_true ++ x :: r) [] p p bs T)
  = LNext Lex.SFilter (GX fd ffd fcs (x :: r) [] q q bs (tk T_TRUE s_true p :: T)).
Proof.
  intros Hx. destruct (intfol_notfn x Hx) as [A B].
  apply (sf_word fd ffd fcs s_true 116%N [114; 117; 101]%N (x :: r) p bs T T_TRUE eq_refl eq_refl eq_refl).
  - intros l2 E. apply (fn_match_nocall l2 116%N [114; 117; 101]%N x r E eq_refl eq_refl A B).
  - intros l2 E. rewrite (accept_mismatch l2 38%N [38%N] 116%N _ E ltac:(discriminate)). rewrite (accept_mismatch l2 124%N [124%N] 116%N _ E ltac:(discriminate)).
    rewrite (accept_prefix l2 s_true (x :: r) E). reflexivity.
Qed.
Lemma sf_false fd ffd fcs x r p bs T : intfol x -> exists q, lex_step Lex.SFilter (GX fd ffd fcs (s_false ++ x :: r) [] p p bs T)
  = LNext Lex.SFilter (GX fd ffd fcs (x :: r) [] q q bs (tk T_FALSE s_false p :: T)).
Proof.
  intros Hx. destruct (intfol_notfn x Hx) as [A B].
  apply (sf_word fd ffd fcs s_false 102%N [97; 108; 115; 101]%N (x :: r) p bs T T_FALSE eq_refl eq_refl eq_refl).
  - intros l2 E. apply (fn_match_nocall l2 102%N [97; 108; 115; 101]%N x r E eq_refl eq_refl A B).
  - intros l2 E. rewrite (accept_mismatch l2 38%N [38%N] 102%N _ E ltac:(discriminate)). rewrite (accept_mismatch l2 124%N [124%N] 102%N _ E ltac:(discriminate)).
    unfold s_true. rewrite (accept_mismatch l2 116%N [114; 117; 101]%N 102%N _ E ltac:(discriminate)). rewrite (accept_prefix l2 s_false (x :: r) E). reflexivity.
Qed.
Lemma sf_null fd ffd fcs x r p bs T : intfol x -> exists q, lex_step Lex.SFilter (GX fd ffd fcs (s_null ++ x :: r) [] p p bs T)
  = LNext Lex.SFilter (GX fd ffd fcs (x :: r) [] q q bs (tk T_NULL s_null p :: T)).
Proof.
  intros Hx. destruct (intfol_notfn x Hx) as [A B].
  apply (sf_word fd ffd fcs s_null 110%N [117; 108; 108]%N (x :: r) p bs T T_NULL eq_refl eq_refl eq_refl).
  - intros l2 E. apply (fn_match_nocall l2 110%N [117; 108; 108]%N x r E eq_refl eq_refl A B).
  - intros l2 E. rewrite (accept_mismatch l2 38%N [38%N] 110%N _ E ltac:(discriminate)). rewrite (accept_mismatch l2 124%N [124%N] 110%N _ E ltac:(discriminate)).
    unfold s_true, s_false. rewrite (accept_mismatch l2 116%N [114; 117; 101]%N 110%N _ E ltac:(discriminate)). rewrite (accept_mismatch l2 102%N [97; 108; 115; 101]%N 110%N _ E ltac:(discriminate)).
    rewrite (accept_prefix l2 s_null (x :: r) E). reflexivity.
Qed.

Lemma sf_int fd ffd fcs sign body x r p bs T : (sign = [] \/ sign = [45%N]) -> body <> [] -> forallb isd body = true -> intfol x ->
  exists q, lex_step Lex.SFilter (GX fd ffd fcs ((sign ++ body) ++ x :: r) [] p p bs T)
  = LNext Lex.SFilter (GX fd ffd fcs (x :: r) [] q q bs (tk T_INT (sign ++ body) p :: T)).
Proof.
  intros Hs Hne Hd Hx.
  assert (Hhd : exists c0 w', sign ++ body = c0 :: w' /\ (c0 = 45%N \/ isd c0 = true)).
  { destruct Hs as [-> | ->]; cbn [app].
    - destruct body as [|b body']; [congruence|]. cbn [forallb] in Hd. apply andb_true_iff in Hd as [Hb _]. exists b, body'. split; [reflexivity | right; exact Hb].
    - exists 45%N, body. split; [reflexivity | left; reflexivity]. }
  destruct Hhd as (c0 & w' & Ew & Hc0).
  assert (Hfacts : in_ranges c0 ws_ranges = false /\ sf_special c0 = false /\ in_ranges c0 cls_fn_first = false /\ 38%N <> c0 /\ 124%N <> c0 /\ 116%N <> c0 /\ 102%N <> c0 /\ 110%N <> c0).
  { destruct Hc0 as [-> | Hc0]; [repeat split; try reflexivity; discriminate|]. unfold isd in Hc0. unfold sf_special, cls_fn_first. cbn [in_ranges ws_ranges].
    repeat split; lia. }
  destruct Hfacts as (F1 & F2 & F3 & F4 & F5 & F6 & F7 & F8).
  apply (sf_word fd ffd fcs (sign ++ body) c0 w' (x :: r) p bs T T_INT Ew F1 F2).
  - intros l2 E. rewrite Ew in E. cbn [app] in E. apply (fn_nomatch_l l2 c0 _ E F3).
  - intros l2 E. pose proof E as E'. rewrite Ew in E'. cbn [app] in E'.
    rewrite (accept_mismatch l2 38%N [38%N] c0 _ E' F4). rewrite (accept_mismatch l2 124%N [124%N] c0 _ E' F5). unfold s_true, s_false, s_null.
    rewrite (accept_mismatch l2 116%N [114; 117; 101]%N c0 _ E' F6). rewrite (accept_mismatch l2 102%N [97; 108; 115; 101]%N c0 _ E' F7).
    rewrite (accept_mismatch l2 110%N [117; 108; 108]%N c0 _ E' F8).
    unfold l_accept_match. rewrite E. rewrite (float_nomatch sign body x r Hs Hne Hd Hx). rewrite (int_match sign body x r Hs Hne Hd Hx). reflexivity.
Qed.

Lemma intfol_numfol c : intfol c -> numfol c.
Proof. intros [-> | [-> | [-> | ->]]]; repeat split; reflexivity. Qed.

(* a FLOAT literal of any of the token pattern's shapes *)
Lemma sf_float_form fd ffd fcs w x r p bs T : float_form w -> intfol x ->
  exists q, lex_step Lex.SFilter (GX fd ffd fcs (w ++ x :: r) [] p p bs T)
  = LNext Lex.SFilter (GX fd ffd fcs (x :: r) [] q q bs (tk T_FLOAT w p :: T)).
Proof.
  intros Hw Hx. destruct (float_form_head w Hw) as (c0 & w' & Ew & Hc0). pose proof (float_form_match w x r Hw (intfol_numfol x Hx)) as MF.
  assert (Hfacts : in_ranges c0 ws_ranges = false /\ sf_special c0 = false /\ in_ranges c0 cls_fn_first = false /\ 38%N <> c0 /\ 124%N <> c0 /\ 116%N <> c0 /\ 102%N <> c0 /\ 110%N <> c0).
  { destruct Hc0 as [-> | Hc0]; [repeat split; try reflexivity; discriminate|]. unfold isd in Hc0. unfold sf_special, cls_fn_first. cbn [in_ranges ws_ranges].
    repeat split; lia. }
  destruct Hfacts as (F1 & F2 & F3 & F4 & F5 & F6 & F7 & F8).
  apply (sf_word fd ffd fcs w c0 w' (x :: r) p bs T T_FLOAT Ew F1 F2).
  - intros l2 E. rewrite Ew in E. cbn [app] in E. apply (fn_nomatch_l l2 c0 _ E F3).
  - intros l2 E. pose proof E as E'. rewrite Ew in E'. cbn [app] in E'.
    rewrite (accept_mismatch l2 38%N [38%N] c0 _ E' F4). rewrite (accept_mismatch l2 124%N [124%N] c0 _ E' F5). unfold s_true, s_false, s_null.
    rewrite (accept_mismatch l2 116%N [114; 117; 101]%N c0 _ E' F6). rewrite (accept_mismatch l2 102%N [97; 108; 115; 101]%N c0 _ E' F7).
    rewrite (accept_mismatch l2 110%N [117; 108; 108]%N c0 _ E' F8).
    unfold l_accept_match. rewrite E. rewrite MF. reflexivity.
Qed.


Lemma sf_fname fd ffd fcs c cs r p bs T : in_ranges c cls_fn_first = true -> forallb (fun y => in_ranges y cls_fn_char) cs = true ->
  exists q q', lex_step Lex.SFilter (GX fd ffd fcs ((c :: cs) ++ 40%N :: r) [] p p bs T)
  = LNext Lex.SFilter (GX fd ffd (1 :: fcs) r [] q q ((40%N, q') :: bs) (tk T_FUNCTION (c :: cs) p :: T)).
Proof.
  intros Hc Hcs.
  assert (F1 : in_ranges c ws_ranges = false /\ sf_special c = false).
  { unfold cls_fn_first in Hc. cbn [in_ranges] in Hc. unfold sf_special. cbn [in_ranges ws_ranges]. split; [lia|]. repeat (apply orb_false_iff; split); apply N.eqb_neq; lia. }
  cbn [app]. rewrite (sf_else fd ffd fcs c (cs ++ 40%N :: r) p bs T (proj1 F1) (proj2 F1)). unfold sf_tail.
  set (l2 := GX fd ffd fcs (c :: cs ++ 40%N :: r) [] p (p + 1 - 1) bs T).
  unfold l_accept_match. change (l_rest l2) with ((c :: cs) ++ 40%N :: r). rewrite (fname_match c cs (40%N :: r) Hc Hcs eq_refl).
  rewrite (peek_advance l2 (c :: cs) (40%N :: r) eq_refl). cbn [andb ceq N.eqb Pos.eqb]. cbv iota.
  unfold l2. change (c :: cs ++ 40%N :: r) with ((c :: cs) ++ 40%N :: r). rewrite advance_app.
  eexists. eexists. unfold l_next. cbn [l_rest push_bracket l_emit set_stacks l_ignore add_tok upd_text LX]. cbn [snd].
  unfold push_bracket, l_emit, set_stacks, l_ignore, add_tok, upd_text, LX, tk. cbn [l_rest l_cur l_start l_pos l_fdepth l_ffd l_fcs l_bs l_toks].
  rewrite app_nil_r, rev_involutive. reflexivity.
Qed.

Lemma sf_cmp fd ffd fcs o r p bs T : exists q, lex_step Lex.SFilter (GX fd ffd fcs (op_str o ++ 32%N :: r) [] p p bs T)
  = LNext Lex.SFilter (GX fd ffd fcs (32%N :: r) [] q q bs (tk (cmp_tok o) (op_str o) p :: T)).
Proof. destruct o; cbn [op_str app]; cbn [lex_step]; rewrite ignore_ws_nonws by reflexivity; eexists; reflexivity. Qed.

(* --- reaching a state, up to blank space the filter state will skip anyway ------------------------------------------------------- *)
Definition sim (st : lstate) (l : lexer) (st0 : lstate) (l0 : lexer) : Prop := forall m, lex_steps (S m) st l = lex_steps (S m) st0 l0.
Definition reachS (st : lstate) (l : lexer) (st0 : lstate) (l0 : lexer) : Prop :=
  exists n st' l', lex_steps n st l = LNext st' l' /\ sim st' l' st0 l0.

Lemma sim_refl st l : sim st l st l. Proof. intros m. reflexivity. Qed.
Lemma sim_trans a la b lb c lc : sim a la b lb -> sim b lb c lc -> sim a la c lc.
Proof. intros H1 H2 m. rewrite H1. apply H2. Qed.
Lemma sim_sym a la b lb : sim a la b lb -> sim b lb a la.
Proof. intros H m. symmetry. apply H. Qed.
Lemma sim_of_step a la b lb : lex_step a la = lex_step b lb -> sim a la b lb.
Proof. intros H m. cbn [lex_steps]. rewrite H. reflexivity. Qed.

Lemma reachS_refl st l : reachS st l st l.
Proof. exists 0%nat, st, l. split; [reflexivity | apply sim_refl]. Qed.
Lemma reachS_sim a la b lb : sim a la b lb -> reachS a la b lb.
Proof. intros H. exists 0%nat, a, la. split; [reflexivity | exact H]. Qed.
Lemma reachS_step a la b lb : lex_step a la = LNext b lb -> reachS a la b lb.
Proof. intros H. exists 1%nat, b, lb. split; [rewrite lex_steps_1; exact H | apply sim_refl]. Qed.
Lemma reachS_steps n a la b lb : lex_steps n a la = LNext b lb -> reachS a la b lb.
Proof. intros H. exists n, b, lb. split; [exact H | apply sim_refl]. Qed.
Lemma reachS_trans a la b lb c lc : reachS a la b lb -> reachS b lb c lc -> reachS a la c lc.
Proof.
  intros (n & b' & lb' & E1 & S1) (k & c' & lc' & E2 & S2). destruct k as [|k].
  - cbn [lex_steps] in E2. inversion E2; subst c' lc'. exists n, b', lb'. split; [exact E1 | eapply sim_trans; eassumption].
  - exists (n + S k)%nat, c', lc'. split; [|exact S2]. rewrite (lex_steps_app n (S k) _ _ _ _ E1). rewrite (S1 k). exact E2.
Qed.
Lemma reachS_stop a la b lb l : reachS a la b lb -> lex_step b lb = LStop l -> exists n, lex_steps n a la = LStop l.
Proof.
  intros (n & b' & lb' & E1 & S1) H. exists (n + 1)%nat. rewrite (lex_steps_app n 1 _ _ _ _ E1). rewrite (S1 0%nat). rewrite lex_steps_1. exact H.
Qed.

(* states with nothing pending: start = pos *)
Definition G (fd : Z) (ffd fcs : list Z) (rest : list N) (p : Z) (bs : list (N * Z)) (T : list token) : lexer := GX fd ffd fcs rest [] p p bs T.

Lemma sim_ws fd ffd fcs c r p bs T : in_ranges c ws_ranges = false ->
  sim Lex.SFilter (G fd ffd fcs (32%N :: c :: r) p bs T) Lex.SFilter (G fd ffd fcs (c :: r) (p + 1) bs T).
Proof. intros H. apply sim_of_step. apply sfilter_ws. exact H. Qed.

(* what may follow an expression in canonical text *)
Definition folt (fr : list N) : Prop :=
  exists c r, fr = c :: r /\ (c = 41%N \/ c = 93%N \/ c = 44%N \/ (c = 32%N /\ exists x r', r = x :: r' /\ in_ranges x ws_ranges = false /\ x <> 46%N /\ x <> 91%N)).
Lemma folt_intfol fr : folt fr -> exists c r, fr = c :: r /\ intfol c.
Proof. intros (c & r & -> & H). exists c, r. split; [reflexivity|]. unfold intfol. destruct H as [-> | [-> | [-> | [-> _]]]]; auto. Qed.

(* after a query inside a filter the segment state hands back to the filter state *)
Lemma seg_to_filter fd ffd fcs fr p bs T : folt fr -> fd <> 0 ->
  reachS SSegment (G fd ffd fcs fr p bs T) Lex.SFilter (G fd ffd fcs fr p bs T).
Proof.
  intros (c & r & -> & H) Hfd. unfold G. destruct H as [-> | [-> | [-> | [-> (x & r' & -> & Hx & H46 & H91)]]]].
  - apply reachS_step. rewrite ssegment_nows by (try reflexivity; try discriminate; exact Hfd). f_equal. apply GX_pos2. lia.
  - apply reachS_step. rewrite ssegment_nows by (try reflexivity; try discriminate; exact Hfd). f_equal. apply GX_pos2. lia.
  - apply reachS_step. rewrite ssegment_nows by (try reflexivity; try discriminate; exact Hfd). f_equal. apply GX_pos2. lia.
  - eapply reachS_trans; [apply reachS_step; apply (ssegment_ws fd ffd fcs x r' p bs T Hx H46 H91 Hfd)|].
    apply reachS_sim. rewrite (GX_pos2 fd ffd fcs (x :: r') [] (p + 1) (p + 1 + 1 - 1) (p + 1)) by lia. apply sim_sym. apply (sim_ws fd ffd fcs x r' p bs T Hx).
Qed.

(* --- lexing the text of an expression, whatever surrounds it ----------------------------------------------------------------------- *)
Definition okS (fd : Z) (ffd fcs : list Z) : Prop :=
  0 < fd /\ (exists d ffd', ffd = d :: ffd' /\ d <= zlen fcs) /\ Forall (fun n => 1 <= n) fcs.
Definition lexesP (X : list N) (P : list token -> Prop) : Prop :=
  forall fd ffd fcs bs fr p T, okS fd ffd fcs -> folt fr ->
    exists q ts, P ts /\ reachS Lex.SFilter (G fd ffd fcs (X ++ fr) p bs T) Lex.SFilter (G fd ffd fcs fr q bs (rev ts ++ T)).
Definition headok (X : list N) : Prop := exists x r, X = x :: r /\ in_ranges x ws_ranges = false /\ x <> 46%N /\ x <> 91%N.

Lemma folt_sp X fr : headok X -> folt (32%N :: X ++ fr).
Proof. intros (x & r & -> & A & B & C). exists 32%N, ((x :: r) ++ fr). split; [reflexivity|]. right. right. right. split; [reflexivity|]. exists x, (r ++ fr). auto. Qed.

Lemma sim_ws_head fd ffd fcs X fr p bs T : headok X ->
  sim Lex.SFilter (G fd ffd fcs (32%N :: X ++ fr) p bs T) Lex.SFilter (G fd ffd fcs (X ++ fr) (p + 1) bs T).
Proof. intros (x & r & -> & A & _). cbn [app]. apply sim_ws. exact A. Qed.

Lemma rev_snoc_app {A} (t1 : list A) x t2 T : rev (t1 ++ x :: t2) ++ T = rev t2 ++ x :: rev t1 ++ T.
Proof. rewrite rev_app_distr. cbn [rev]. rewrite <- !app_assoc. reflexivity. Qed.

(* X1 op X2 with one blank on either side of the operator *)
Lemma lexes_bin X1 P1 X2 P2 (op : list N) (optok : ttype) (P : list token -> Prop) : lexesP X1 P1 -> lexesP X2 P2 -> headok X2 -> headok op ->
  (forall fd ffd fcs r p bs T, exists q, lex_step Lex.SFilter (GX fd ffd fcs (op ++ 32%N :: r) [] p p bs T)
      = LNext Lex.SFilter (GX fd ffd fcs (32%N :: r) [] q q bs (tk optok op p :: T))) ->
  (forall t1 t2 v i, P1 t1 -> P2 t2 -> P (t1 ++ tk optok v i :: t2)) ->
  lexesP (X1 ++ 32%N :: op ++ 32%N :: X2) P.
Proof.
  intros H1 H2 Hh2 Hhop Hop HP fd ffd fcs bs fr p T Hok Hfr.
  assert (Hf1 : folt (32%N :: op ++ (32%N :: X2 ++ fr))) by (apply folt_sp; exact Hhop).
  destruct (H1 fd ffd fcs bs _ p T Hok Hf1) as (q1 & t1 & Pt1 & R1).
  destruct (Hop fd ffd fcs (X2 ++ fr) (q1 + 1) bs (rev t1 ++ T)) as [q2 E2].
  destruct (H2 fd ffd fcs bs fr (q2 + 1) (tk optok op (q1 + 1) :: rev t1 ++ T) Hok Hfr) as (q3 & t2 & Pt2 & R3).
  exists q3, (t1 ++ tk optok op (q1 + 1) :: t2). split; [apply HP; assumption|].
  rewrite <- !app_assoc. cbn [app]. rewrite <- !app_assoc. cbn [app].
  eapply reachS_trans; [exact R1|]. eapply reachS_trans; [apply reachS_sim; apply (sim_ws_head fd ffd fcs op _ q1 bs _ Hhop)|].
  eapply reachS_trans; [apply reachS_step; exact E2|]. fold (G fd ffd fcs (32%N :: X2 ++ fr) q2 bs (tk optok op (q1 + 1) :: rev t1 ++ T)).
  eapply reachS_trans; [apply reachS_sim; apply (sim_ws_head fd ffd fcs X2 fr q2 bs _ Hh2)|].
  rewrite rev_snoc_app. exact R3.
Qed.

Lemma folt_rparen r : folt (41%N :: r). Proof. exists 41%N, r. auto. Qed.
Lemma folt_rbracket r : folt (93%N :: r). Proof. exists 93%N, r. auto. Qed.
Lemma folt_comma r : folt (44%N :: r). Proof. exists 44%N, r. auto 6. Qed.

Lemma okS_paren fd ffd n fcs : okS fd ffd (n :: fcs) -> okS fd ffd (n + 1 :: fcs).
Proof. intros (A & (d & f' & -> & Hd) & C). split; [exact A|]. split; [exists d, f'; split; [reflexivity | unfold zlen in *; cbn [length] in *; lia]|]. inversion C; subst. constructor; [lia | assumption]. Qed.

(* ( X ) *)
Lemma lexes_paren X P0 (P : list token -> Prop) : lexesP X P0 ->
  (forall t v1 i1 v2 i2, P0 t -> P (tk T_LPAREN v1 i1 :: t ++ [tk T_RPAREN v2 i2])) ->
  lexesP (40%N :: X ++ [41%N]) P.
Proof.
  intros H HP fd ffd fcs bs fr p T Hok Hfr. cbn [app]. rewrite <- app_assoc. cbn [app].
  destruct fcs as [|n fcs'].
  - destruct (H fd ffd [] ((40%N, p + 1 - 1) :: bs) (41%N :: fr) (p + 1) (tk T_LPAREN [40%N] p :: T) Hok (folt_rparen fr)) as (q1 & t & Pt & R1).
    exists (q1 + 1), (tk T_LPAREN [40%N] p :: t ++ [tk T_RPAREN [41%N] q1]). split; [apply HP; exact Pt|].
    eapply reachS_trans; [apply reachS_step; apply sf_lparen|]. eapply reachS_trans; [exact R1|].
    eapply reachS_trans; [apply reachS_step; apply sf_rparen|]. apply reachS_sim. unfold G.
    replace (rev (tk T_LPAREN [40%N] p :: t ++ [tk T_RPAREN [41%N] q1]) ++ T) with (tk T_RPAREN [41%N] q1 :: rev t ++ tk T_LPAREN [40%N] p :: T); [apply sim_refl|].
    cbn [rev]. rewrite rev_app_distr. cbn [rev app]. rewrite <- !app_assoc. reflexivity.
  - assert (Hn : 1 <= n) by (destruct Hok as (_ & _ & C); inversion C; assumption).
    destruct (H fd ffd (n + 1 :: fcs') ((40%N, p + 1 - 1) :: bs) (41%N :: fr) (p + 1) (tk T_LPAREN [40%N] p :: T) (okS_paren _ _ _ _ Hok) (folt_rparen fr)) as (q1 & t & Pt & R1).
    exists (q1 + 1), (tk T_LPAREN [40%N] p :: t ++ [tk T_RPAREN [41%N] q1]). split; [apply HP; exact Pt|].
    eapply reachS_trans; [apply reachS_step; apply sf_lparen|]. eapply reachS_trans; [exact R1|].
    eapply reachS_trans; [apply reachS_step; apply sf_rparen|]. apply reachS_sim. unfold G.
    assert (E1 : (n + 1 =? 1) = false) by lia. rewrite E1. replace (n + 1 - 1) with n by lia.
    replace (rev (tk T_LPAREN [40%N] p :: t ++ [tk T_RPAREN [41%N] q1]) ++ T) with (tk T_RPAREN [41%N] q1 :: rev t ++ tk T_LPAREN [40%N] p :: T); [apply sim_refl|].
    cbn [rev]. rewrite rev_app_distr. cbn [rev app]. rewrite <- !app_assoc. reflexivity.
Qed.

(* ! X *)
Lemma lexes_not X P0 (P : list token -> Prop) : lexesP X P0 -> (exists x r, X = x :: r /\ x <> 61%N) ->
  (forall t v i, P0 t -> P (tk T_NOT v i :: t)) -> lexesP (33%N :: X) P.
Proof.
  intros H (x & r & -> & Hx) HP fd ffd fcs bs fr p T Hok Hfr.
  destruct (H fd ffd fcs bs fr (p + 1) (tk T_NOT [33%N] p :: T) Hok Hfr) as (q1 & t & Pt & R1).
  exists q1, (tk T_NOT [33%N] p :: t). split; [apply HP; exact Pt|]. cbn [app].
  eapply reachS_trans; [apply reachS_step; apply (sf_not fd ffd fcs x (r ++ fr) p bs T Hx)|].
  cbn [rev]. rewrite <- app_assoc. cbn [app]. exact R1.
Qed.

(* a single token: keyword or integer *)
Lemma lexes_word (w : list N) (ty0 : ttype) (P : list token -> Prop) :
  (forall fd ffd fcs x r p bs T, intfol x -> exists q, lex_step Lex.SFilter (GX fd ffd fcs (w ++ x :: r) [] p p bs T)
      = LNext Lex.SFilter (GX fd ffd fcs (x :: r) [] q q bs (tk ty0 w p :: T))) ->
  (forall i, P [tk ty0 w i]) -> lexesP w P.
Proof.
  intros Hstep HP fd ffd fcs bs fr p T Hok Hfr. destruct (folt_intfol fr Hfr) as (c & r & -> & Hc).
  destruct (Hstep fd ffd fcs c r p bs T Hc) as [q E]. exists q, [tk ty0 w p]. split; [apply HP|]. apply reachS_step. exact E.
Qed.

(* 'body' *)
Lemma lexes_string body (P : list token -> Prop) : lex_ok 39 body = true -> (forall i, P [tk T_SQ_STRING body i]) -> lexesP (39%N :: body ++ [39%N]) P.
Proof.
  intros Hl HP fd ffd fcs bs fr p T Hok Hfr. cbn [app]. rewrite <- app_assoc. cbn [app].
  set (l1 := GX fd ffd fcs (body ++ 39%N :: fr) [39%N] p (p + 1) bs T).
  destruct (lex_string_literal 39 true l1 body fr (or_introl eq_refl) eq_refl Hl) as [k [_ Hs]].
  exists (p + 1 + zlen body + 1), [tk T_SQ_STRING body (p + 1)]. split; [apply HP|].
  eapply reachS_trans; [apply reachS_step; apply sf_quote|]. fold l1. apply (reachS_steps k). rewrite Hs. reflexivity.
Qed.

(* --- function calls ------------------------------------------------------------------------------------------------------------------- *)
Definition lexesA (X : list N) (PA : list token -> Prop) : Prop :=
  forall fd d ffd fcs bs r p T, okS fd (d :: ffd) fcs -> (d <? zlen fcs) = true ->
    exists q ts, PA ts /\ reachS Lex.SFilter (G fd (d :: ffd) fcs (X ++ 41%N :: r) p bs T) Lex.SFilter (G fd (d :: ffd) fcs (41%N :: r) q bs (rev ts ++ T)).

Lemma lexesA_nil (PA : list token -> Prop) : PA [] -> lexesA [] PA.
Proof. intros H fd d ffd fcs bs r p T _ _. exists p, []. split; [exact H | apply reachS_refl]. Qed.
Lemma lexesA_one X P0 (PA : list token -> Prop) : lexesP X P0 -> (forall t, P0 t -> PA t) -> lexesA X PA.
Proof.
  intros H HP fd d ffd fcs bs r p T Hok _. destruct (H fd (d :: ffd) fcs bs (41%N :: r) p T Hok (folt_rparen r)) as (q & t & Pt & R).
  exists q, t. split; [apply HP; exact Pt | exact R].
Qed.
Lemma lexesA_cons X P0 R PR (PA : list token -> Prop) : lexesP X P0 -> lexesA R PR -> headok R ->
  (forall t1 t2 v i, P0 t1 -> PR t2 -> PA (t1 ++ tk T_COMMA v i :: t2)) -> lexesA (X ++ 44%N :: 32%N :: R) PA.
Proof.
  intros H HR Hh HP fd d ffd fcs bs r p T Hok Hd.
  destruct (H fd (d :: ffd) fcs bs (44%N :: 32%N :: R ++ 41%N :: r) p T Hok (folt_comma _)) as (q1 & t1 & Pt1 & R1).
  destruct (HR fd d ffd fcs bs r (q1 + 1 + 1) (tk T_COMMA [44%N] q1 :: rev t1 ++ T) Hok Hd) as (q2 & t2 & Pt2 & R2).
  exists q2, (t1 ++ tk T_COMMA [44%N] q1 :: t2). split; [apply HP; assumption|].
  rewrite <- !app_assoc. cbn [app].
  eapply reachS_trans; [exact R1|]. eapply reachS_trans; [apply reachS_step; apply (sf_comma_in fd d ffd fcs _ q1 bs _ Hd)|].
  fold (G fd (d :: ffd) fcs (32%N :: R ++ 41%N :: r) (q1 + 1) bs (tk T_COMMA [44%N] q1 :: rev t1 ++ T)).
  eapply reachS_trans; [apply reachS_sim; apply (sim_ws_head fd (d :: ffd) fcs R _ (q1 + 1) bs _ Hh)|].
  rewrite rev_snoc_app. exact R2.
Qed.

Lemma lexes_call c cs A PA (P : list token -> Prop) : in_ranges c cls_fn_first = true -> forallb (fun y => in_ranges y cls_fn_char) cs = true ->
  lexesA A PA -> (forall t i v2 i2, PA t -> P (tk T_FUNCTION (c :: cs) i :: t ++ [tk T_RPAREN v2 i2])) ->
  lexesP ((c :: cs) ++ 40%N :: A ++ [41%N]) P.
Proof.
  intros Hc Hcs HA HP fd ffd fcs bs fr p T Hok Hfr. pose proof Hok as (Hfd & (d & ffd' & -> & Hd) & Hall).
  rewrite <- !app_assoc. cbn [app]. rewrite <- app_assoc. cbn [app].
  destruct (sf_fname fd (d :: ffd') fcs c cs (A ++ 41%N :: fr) p bs T Hc Hcs) as (q0 & q0' & E0).
  assert (Hok' : okS fd (d :: ffd') (1 :: fcs)).
  { split; [exact Hfd|]. split; [exists d, ffd'; split; [reflexivity | unfold zlen in *; cbn [length]; lia] | constructor; [lia | exact Hall]]. }
  assert (Hd' : (d <? zlen (1 :: fcs)) = true) by (apply Z.ltb_lt; unfold zlen in *; cbn [length]; lia).
  destruct (HA fd d ffd' (1 :: fcs) ((40%N, q0') :: bs) fr q0 (tk T_FUNCTION (c :: cs) p :: T) Hok' Hd') as (q1 & t & Pt & R1).
  exists (q1 + 1), (tk T_FUNCTION (c :: cs) p :: t ++ [tk T_RPAREN [41%N] q1]). split; [apply HP; exact Pt|].
  eapply reachS_trans; [apply reachS_step; exact E0|]. fold (G fd (d :: ffd') (1 :: fcs) (A ++ 41%N :: fr) q0 ((40%N, q0') :: bs) (tk T_FUNCTION (c :: cs) p :: T)).
  eapply reachS_trans; [exact R1|]. eapply reachS_trans; [apply reachS_step; apply sf_rparen|]. apply reachS_sim. unfold G. change (1 =? 1) with true. cbv iota.
  replace (rev (tk T_FUNCTION (c :: cs) p :: t ++ [tk T_RPAREN [41%N] q1]) ++ T) with (tk T_RPAREN [41%N] q1 :: rev t ++ tk T_FUNCTION (c :: cs) p :: T); [apply sim_refl|].
  cbn [rev]. rewrite rev_app_distr. cbn [rev app]. rewrite <- !app_assoc. reflexivity.
Qed.

(* --- selectors, segments, queries (inside a filter or not) ------------------------------------------------------------------------- *)
Definition okG (fd : Z) (fcs : list Z) : Prop := 0 <= fd /\ Forall (fun n => 1 <= n) fcs.
Definition lexesQ (X : list N) (PQ : list token -> Prop) : Prop :=
  forall fd ffd fcs bs rest p T, okG fd fcs ->
    exists q ts, PQ ts /\ reachS SSegment (G fd ffd fcs (X ++ rest) p bs T) SSegment (G fd ffd fcs rest q bs (rev ts ++ T)).
Definition lexesSels (X : list N) (PS : list token -> Prop) : Prop :=
  forall fd ffd fcs bs0 i0 r p T, okG fd fcs ->
    exists q ts, PS ts /\ reachS SBracket (G fd ffd fcs (X ++ 93%N :: r) p ((91%N, i0) :: bs0) T) SBracket (G fd ffd fcs (93%N :: r) q ((91%N, i0) :: bs0) (rev ts ++ T)).
Definition lexesSel (X : list N) (PS : list token -> Prop) : Prop :=
  forall fd ffd fcs bs0 i0 r p T, okG fd fcs ->
    (exists q ts, PS ts /\ reachS SBracket (G fd ffd fcs (X ++ 93%N :: r) p ((91%N, i0) :: bs0) T) SBracket (G fd ffd fcs (93%N :: r) q ((91%N, i0) :: bs0) (rev ts ++ T))) /\
    (exists q q' ts, PS ts /\ reachS SBracket (G fd ffd fcs (X ++ 44%N :: r) p ((91%N, i0) :: bs0) T) SBracket (G fd ffd fcs r q ((91%N, i0) :: bs0) (tk T_COMMA [44%N] q' :: rev ts ++ T))).

Lemma sb_filter fd ffd fcs r p bs T : lex_step SBracket (GX fd ffd fcs (63%N :: r) [] p p bs T)
  = LNext Lex.SFilter (GX (fd + 1) (zlen fcs :: ffd) fcs r [] (p + 1) (p + 1) bs (tk T_FILTER [63%N] p :: T)).
Proof. cbn [lex_step]. rewrite ignore_ws_nonws by reflexivity. reflexivity. Qed.

Lemma sel_plain s : sel_ok s -> lexesSel (sel_str s) (fun ts => exists p, ts = sel_toks s p).
Proof.
  intros Hs fd ffd fcs bs0 i0 r p T _. split.
  - destruct (lex_sel fd ffd fcs bs0 s 93%N r p i0 T Hs (or_intror eq_refl)) as (n & _ & E).
    exists (p + zlen (sel_str s)), (sel_toks s p). split; [eauto|]. apply (reachS_steps n). exact E.
  - destruct (lex_sel fd ffd fcs bs0 s 44%N r p i0 T Hs (or_introl eq_refl)) as (n & _ & E).
    exists (p + zlen (sel_str s) + 1), (p + zlen (sel_str s)), (sel_toks s p). split; [eauto|].
    eapply reachS_trans; [apply (reachS_steps n); exact E|]. apply reachS_step.
    apply (step_bracket_char fd ffd fcs 44%N T_COMMA r (p + zlen (sel_str s)) _ _). right. left. split; reflexivity.
Qed.

Lemma sel_filter X P0 (PS : list token -> Prop) : lexesP X P0 -> (forall t v i, P0 t -> PS (tk T_FILTER v i :: t)) -> lexesSel (63%N :: X) PS.
Proof.
  intros H HP fd ffd fcs bs0 i0 r p T [Hfd Hall].
  assert (Hok : okS (fd + 1) (zlen fcs :: ffd) fcs) by (split; [lia|]; split; [exists (zlen fcs), ffd; split; [reflexivity | lia] | exact Hall]).
  split.
  - destruct (H (fd + 1) (zlen fcs :: ffd) fcs ((91%N, i0) :: bs0) (93%N :: r) (p + 1) (tk T_FILTER [63%N] p :: T) Hok (folt_rbracket r)) as (q1 & t & Pt & R1).
    exists q1, (tk T_FILTER [63%N] p :: t). split; [apply HP; exact Pt|]. cbn [app].
    eapply reachS_trans; [apply reachS_step; apply sb_filter|]. eapply reachS_trans; [exact R1|].
    eapply reachS_trans; [apply reachS_step; apply sf_close|]. apply reachS_sim. unfold G.
    replace (fd + 1 - 1) with fd by lia. rewrite (GX_pos2 fd ffd fcs (93%N :: r) [] q1 (q1 + 1 - 1) q1) by lia.
    cbn [rev]. rewrite <- app_assoc. apply sim_refl.
  - destruct (H (fd + 1) (zlen fcs :: ffd) fcs ((91%N, i0) :: bs0) (44%N :: r) (p + 1) (tk T_FILTER [63%N] p :: T) Hok (folt_comma r)) as (q1 & t & Pt & R1).
    exists (q1 + 1), q1, (tk T_FILTER [63%N] p :: t). split; [apply HP; exact Pt|]. cbn [app].
    eapply reachS_trans; [apply reachS_step; apply sb_filter|]. eapply reachS_trans; [exact R1|].
    eapply reachS_trans; [apply reachS_step; apply sf_comma_out; apply Z.ltb_irrefl|]. apply reachS_sim. unfold G.
    replace (fd + 1 - 1) with fd by lia. cbn [rev]. rewrite <- app_assoc. apply sim_refl.
Qed.

Lemma sels_one X P1 (PS : list token -> Prop) : lexesSel X P1 -> (forall t, P1 t -> PS t) -> lexesSels X PS.
Proof. intros H HP fd ffd fcs bs0 i0 r p T Hok. destruct (H fd ffd fcs bs0 i0 r p T Hok) as [(q & t & Pt & R) _]. exists q, t. split; [apply HP; exact Pt | exact R]. Qed.

Lemma sim_ws_bracket fd ffd fcs X r p bs T : (exists x tl, X = x :: tl /\ in_ranges x ws_ranges = false) ->
  sim SBracket (G fd ffd fcs (32%N :: X ++ r) p bs T) SBracket (G fd ffd fcs (X ++ r) (p + 1) bs T).
Proof. intros (x & tl & -> & Hx). cbn [app]. apply sim_of_step. apply (sbracket_ws fd ffd fcs x (tl ++ r) p bs T Hx). Qed.

Lemma sels_cons X P1 R PR (PS : list token -> Prop) : lexesSel X P1 -> lexesSels R PR -> (exists x tl, R = x :: tl /\ in_ranges x ws_ranges = false) ->
  (forall t1 t2 v i, P1 t1 -> PR t2 -> PS (t1 ++ tk T_COMMA v i :: t2)) -> lexesSels (X ++ 44%N :: 32%N :: R) PS.
Proof.
  intros H HR Hh HP fd ffd fcs bs0 i0 r p T Hok.
  destruct (H fd ffd fcs bs0 i0 (32%N :: R ++ 93%N :: r) p T Hok) as [_ (q1 & q1' & t1 & Pt1 & R1)].
  destruct (HR fd ffd fcs bs0 i0 r (q1 + 1) (tk T_COMMA [44%N] q1' :: rev t1 ++ T) Hok) as (q2 & t2 & Pt2 & R2).
  exists q2, (t1 ++ tk T_COMMA [44%N] q1' :: t2). split; [apply HP; assumption|].
  rewrite <- !app_assoc. cbn [app]. eapply reachS_trans; [exact R1|].
  eapply reachS_trans; [apply reachS_sim; apply (sim_ws_bracket fd ffd fcs R (93%N :: r) q1 _ _ Hh)|].
  rewrite rev_snoc_app. exact R2.
Qed.

Lemma seg_child X PS (P : list token -> Prop) : lexesSels X PS -> (forall t v1 i1 v2 i2, PS t -> P (tk T_LBRACKET v1 i1 :: t ++ [tk T_RBRACKET v2 i2])) ->
  lexesQ (91%N :: X ++ [93%N]) P.
Proof.
  intros H HP fd ffd fcs bs rest p T Hok. cbn [app]. rewrite <- app_assoc. cbn [app].
  destruct (H fd ffd fcs bs (p + 1 - 1) rest (p + 1) (tk T_LBRACKET [91%N] p :: T) Hok) as (q1 & t & Pt & R1).
  exists (q1 + 1), (tk T_LBRACKET [91%N] p :: t ++ [tk T_RBRACKET [93%N] q1]). split; [apply HP; exact Pt|].
  eapply reachS_trans; [apply reachS_step; apply (step_seg_open fd ffd fcs bs _ p T)|]. eapply reachS_trans; [exact R1|].
  eapply reachS_trans; [apply reachS_step; apply (step_bracket_close fd ffd fcs bs rest q1 _ _)|]. apply reachS_sim. unfold G.
  replace (rev (tk T_LBRACKET [91%N] p :: t ++ [tk T_RBRACKET [93%N] q1]) ++ T) with (tk T_RBRACKET [93%N] q1 :: rev t ++ tk T_LBRACKET [91%N] p :: T); [apply sim_refl|].
  cbn [rev]. rewrite rev_app_distr. cbn [rev app]. rewrite <- !app_assoc. reflexivity.
Qed.
Lemma seg_desc X PS (P : list token -> Prop) : lexesSels X PS ->
  (forall t v0 i0 v1 i1 v2 i2, PS t -> P (tk T_DOUBLE_DOT v0 i0 :: tk T_LBRACKET v1 i1 :: t ++ [tk T_RBRACKET v2 i2])) ->
  lexesQ ([46; 46; 91]%N ++ X ++ [93%N]) P.
Proof.
  intros H HP fd ffd fcs bs rest p T Hok. cbn [app]. rewrite <- app_assoc. cbn [app].
  destruct (H fd ffd fcs bs (p + 1 + 1 + 1 - 1) rest (p + 1 + 1 + 1) (tk T_LBRACKET [91%N] (p + 1 + 1) :: tk T_DOUBLE_DOT [46; 46]%N p :: T) Hok) as (q1 & t & Pt & R1).
  exists (q1 + 1), (tk T_DOUBLE_DOT [46; 46]%N p :: tk T_LBRACKET [91%N] (p + 1 + 1) :: t ++ [tk T_RBRACKET [93%N] q1]). split; [apply HP; exact Pt|].
  eapply reachS_trans; [apply reachS_step; apply (step_seg_dotdot fd ffd fcs bs _ p T)|].
  eapply reachS_trans; [apply reachS_step; apply (step_desc_open fd ffd fcs bs _ (p + 1 + 1) _)|]. eapply reachS_trans; [exact R1|].
  eapply reachS_trans; [apply reachS_step; apply (step_bracket_close fd ffd fcs bs rest q1 _ _)|]. apply reachS_sim. unfold G.
  replace (rev (tk T_DOUBLE_DOT [46; 46]%N p :: tk T_LBRACKET [91%N] (p + 1 + 1) :: t ++ [tk T_RBRACKET [93%N] q1]) ++ T)
    with (tk T_RBRACKET [93%N] q1 :: rev t ++ tk T_LBRACKET [91%N] (p + 1 + 1) :: tk T_DOUBLE_DOT [46; 46]%N p :: T); [apply sim_refl|].
  cbn [rev]. rewrite !rev_app_distr. cbn [rev app]. rewrite <- !app_assoc. reflexivity.
Qed.

Lemma q_nil (P : list token -> Prop) : P [] -> lexesQ [] P.
Proof. intros H fd ffd fcs bs rest p T _. exists p, []. split; [exact H | apply reachS_refl]. Qed.
Lemma q_cons X1 P1 X2 P2 (P : list token -> Prop) : lexesQ X1 P1 -> lexesQ X2 P2 -> (forall t1 t2, P1 t1 -> P2 t2 -> P (t1 ++ t2)) -> lexesQ (X1 ++ X2) P.
Proof.
  intros H1 H2 HP fd ffd fcs bs rest p T Hok. destruct (H1 fd ffd fcs bs (X2 ++ rest) p T Hok) as (q1 & t1 & Pt1 & R1).
  destruct (H2 fd ffd fcs bs rest q1 (rev t1 ++ T) Hok) as (q2 & t2 & Pt2 & R2).
  exists q2, (t1 ++ t2). split; [apply HP; assumption|]. rewrite <- app_assoc. eapply reachS_trans; [exact R1|].
  rewrite rev_app_distr, <- app_assoc. exact R2.
Qed.

(* @ segments   /   $ segments   as a filter query *)
Lemma lexes_query (rel : bool) X PQ (P : list token -> Prop) : lexesQ X PQ ->
  (forall t v i, PQ t -> P (tk (if rel then T_CURRENT else T_ROOT) v i :: t)) -> lexesP ((if rel then 64%N else 36%N) :: X) P.
Proof.
  intros H HP fd ffd fcs bs fr p T Hok Hfr. pose proof Hok as (Hfd & _ & Hall).
  assert (HokG : okG fd fcs) by (split; [lia | exact Hall]).
  destruct rel.
  - destruct (H fd ffd fcs bs fr (p + 1) (tk T_CURRENT [64%N] p :: T) HokG) as (q1 & t & Pt & R1).
    exists q1, (tk T_CURRENT [64%N] p :: t). split; [apply HP; exact Pt|]. cbn [app].
    eapply reachS_trans; [apply reachS_step; apply (sf_current fd ffd fcs (X ++ fr) p bs T)|].
    eapply reachS_trans; [exact R1|]. cbn [rev]. rewrite <- app_assoc. cbn [app]. apply seg_to_filter; [exact Hfr | lia].
  - destruct (H fd ffd fcs bs fr (p + 1) (tk T_ROOT [36%N] p :: T) HokG) as (q1 & t & Pt & R1).
    exists q1, (tk T_ROOT [36%N] p :: t). split; [apply HP; exact Pt|]. cbn [app].
    eapply reachS_trans; [apply reachS_step; apply (sf_root fd ffd fcs (X ++ fr) p bs T)|].
    eapply reachS_trans; [exact R1|]. cbn [rev]. rewrite <- app_assoc. cbn [app]. apply seg_to_filter; [exact Hfr | lia].
Qed.

(* ================= the canonical text of a query with filters ======================================================================= *)
(* the query str() denotes: omitted slice steps made explicit, everywhere *)
Fixpoint cn_sel (s : sel) {struct s} : sel :=
  match s with
  | SSlice a b c => SSlice a b (Some (step1 c))
  | SFilter e => SFilter (cn_expr e)
  | _ => s
  end
with cn_expr (e : expr) {struct e} : expr :=
  match e with
  | ELit v => ELit v
  | ERel q => ERel ((fix go (q : list seg) : list seg := match q with [] => [] | g :: q' => cn_seg g :: go q' end) q)
  | EAbs q => EAbs ((fix go (q : list seg) : list seg := match q with [] => [] | g :: q' => cn_seg g :: go q' end) q)
  | ECall f args => ECall f ((fix go (l : list expr) : list expr := match l with [] => [] | a :: l' => cn_expr a :: go l' end) args)
  | ENot a => ENot (cn_expr a)
  | EAnd a b => EAnd (cn_expr a) (cn_expr b)
  | EOr a b => EOr (cn_expr a) (cn_expr b)
  | ECmp o a b => ECmp o (cn_expr a) (cn_expr b)
  end
with cn_seg (g : seg) {struct g} : seg :=
  match g with
  | Child ss => Child ((fix go (l : list sel) : list sel := match l with [] => [] | s :: l' => cn_sel s :: go l' end) ss)
  | Desc ss => Desc ((fix go (l : list sel) : list sel := match l with [] => [] | s :: l' => cn_sel s :: go l' end) ss)
  end.
Lemma cn_rel q : cn_expr (ERel q) = ERel (map cn_seg q).
Proof. reflexivity. Qed.
Lemma cn_abs q : cn_expr (EAbs q) = EAbs (map cn_seg q).
Proof. reflexivity. Qed.
Lemma cn_call f args : cn_expr (ECall f args) = ECall f (map cn_expr args).
Proof. reflexivity. Qed.
Lemma cn_child ss : cn_seg (Child ss) = Child (map cn_sel ss).
Proof. reflexivity. Qed.
Lemma cn_desc ss : cn_seg (Desc ss) = Desc (map cn_sel ss).
Proof. reflexivity. Qed.

Lemma lx_segs_forall q : (fix go (q : list seg) : bool := match q with [] => true | g :: q' => lx_seg g && go q' end) q = forallb lx_seg q.
Proof. induction q as [|g q IH]; [reflexivity|]. cbn [forallb]. rewrite IH. reflexivity. Qed.
Lemma lx_args_forall l : (fix go (l : list expr) : bool := match l with [] => true | a :: l' => lx_expr a && go l' end) l = forallb lx_expr l.
Proof. induction l as [|g q IH]; [reflexivity|]. cbn [forallb]. rewrite IH. reflexivity. Qed.
Lemma lx_sels_forall l : (fix go (l : list sel) : bool := match l with [] => true | s :: l' => lx_sel s && go l' end) l = forallb lx_sel l.
Proof. induction l as [|g q IH]; [reflexivity|]. cbn [forallb]. rewrite IH. reflexivity. Qed.

Section Canon.
Variable cfg : envcfg.
Notation rg := (reg cfg).

Lemma sq_decodes k i : forallb is_scalar k = true -> decode_string_literal (tk T_SQ_STRING (flat_map norm_char k) i) = Ok k.
Proof.
  intros Hk. unfold tk. rewrite (decode_sq _ _ (lex_ok_norm k Hk)); [rewrite decode_norm_body by exact Hk; reflexivity|].
  destruct (spec_lex_ok 39 (or_introl eq_refl) _ _ k (le_n _) (decode_norm_body k Hk)) as [_ B]. exact B.
Qed.

Lemma sel_toks_grammar s p : sel_ok s -> sel_range cfg s -> SelT cfg (cn_sel s) (sel_toks s p).
Proof.
  intros Hok Hr. destruct s as [k|i|a b c| |e]; cbn [sel_ok sel_range cn_sel sel_toks] in *; [| | | |contradiction].
  - apply st_name; [left; reflexivity | apply sq_decodes; exact Hok].
  - apply st_index; [apply repr_int_ok | exact Hr].
  - destruct Hr as (Ra & Rb & Rc). cbv zeta.
    change (opt_tok a p ++ [tk T_COLON [58%N] (p + zlen (opt_int_str a []))] ++ opt_tok b (p + zlen (opt_int_str a []) + 1) ++
            [tk T_COLON [58%N] (p + zlen (opt_int_str a []) + 1 + zlen (opt_int_str b []))] ++ [tk T_INDEX (repr_int (step1 c)) (p + zlen (opt_int_str a []) + 1 + zlen (opt_int_str b []) + 1)])
      with (opt_tok a p ++ tk T_COLON [58%N] (p + zlen (opt_int_str a [])) :: opt_tok b (p + zlen (opt_int_str a []) + 1) ++
            [tk T_COLON [58%N] (p + zlen (opt_int_str a []) + 1 + zlen (opt_int_str b [])); tk T_INDEX (repr_int (step1 c)) (p + zlen (opt_int_str a []) + 1 + zlen (opt_int_str b []) + 1)]).
    apply st_slice.
    + destruct a as [x|]; cbn [OptI opt_tok]; [eexists; eexists; split; [reflexivity | split; [apply repr_int_ok | exact Ra]] | reflexivity].
    + destruct b as [x|]; cbn [OptI opt_tok]; [eexists; eexists; split; [reflexivity | split; [apply repr_int_ok | exact Rb]] | reflexivity].
    + right. eexists; eexists; eexists. split; [reflexivity|]. cbn [OptI]. eexists; eexists; split; [reflexivity | split; [apply repr_int_ok | exact Rc]].
  - apply st_wild.
Qed.

(* --- binding levels of the two printers ------------------------------------------------------------------------------------------ *)
Definition xlevel (e : expr) : Z := match e with ECmp _ _ _ => 5 | _ => 7 end.
Definition clevel (e : expr) (parent : Z) : Z :=
  match e with
  | EAnd _ _ => if 4 <=? parent then 7 else 4
  | EOr _ _ => if 3 <=? parent then 7 else 3
  | ECmp _ _ _ => if 7 <=? parent then 7 else 5
  | _ => 7
  end.
Definition lvl (k : Z) : Prop := k = 7 \/ k = 5 \/ k = 4 \/ k = 3.
Lemma xlevel_lvl e : lvl (xlevel e). Proof. destruct e; cbn; unfold lvl; auto. Qed.
Lemma clevel_lvl e p : lvl (clevel e p). Proof. destruct e; cbn; unfold lvl; try destruct (_ <=? _); auto. Qed.
Lemma clevel_cn e p : clevel (cn_expr e) p = clevel e p. Proof. destruct e; reflexivity. Qed.
Lemma xlevel_cn e : xlevel (cn_expr e) = xlevel e. Proof. destruct e; reflexivity. Qed.

Lemma et_down k e t : ET cfg k e t -> lvl k -> ET cfg 3 e t /\ (4 <= k -> ET cfg 4 e t) /\ (5 <= k -> ET cfg 5 e t).
Proof.
  intros H [-> | [-> | [-> | ->]]].
  - repeat split; intros; [apply et_34, et_45, et_57; exact H | apply et_45, et_57; exact H | apply et_57; exact H].
  - repeat split; intros; [apply et_34, et_45; exact H | apply et_45; exact H | exact H].
  - repeat split; intros; [apply et_34; exact H | exact H | lia].
  - repeat split; intros; [exact H | lia | lia].
Qed.

(* what may stand after '!' *)
Definition NegT (e : expr) (ts : list token) : Prop :=
  (exists t v1 i1 v2 i2, ts = tk T_LPAREN v1 i1 :: t ++ [tk T_RPAREN v2 i2] /\ ET cfg 3 e t) \/ TT cfg TLogical e ts.
Definition nstr (e : expr) : str := if is_cmp_or_not e then paren (expr_str e) else expr_str e.

Definition hd_str (X : list N) : Prop := exists x r, X = x :: r /\ in_ranges x ws_ranges = false /\ x <> 46%N /\ x <> 91%N /\ x <> 61%N.
Lemma hd_headok X : hd_str X -> headok X.
Proof. intros (x & r & -> & A & B & C & _). exists x, r. auto. Qed.
Lemma hd_ne61 X : hd_str X -> exists x r, X = x :: r /\ x <> 61%N.
Proof. intros (x & r & -> & _ & _ & _ & D). eauto. Qed.
Lemma hd_ws X : hd_str X -> exists x tl, X = x :: tl /\ in_ranges x ws_ranges = false.
Proof. intros (x & r & -> & A & _). eauto. Qed.
Lemma hd_cons x r : in_ranges x ws_ranges = false -> x <> 46%N -> x <> 91%N -> x <> 61%N -> hd_str (x :: r).
Proof. intros. exists x, r. auto. Qed.
Lemma hd_app X Y : hd_str X -> hd_str (X ++ Y).
Proof. intros (x & r & -> & H). exists x, (r ++ Y). split; [reflexivity | exact H]. Qed.

Lemma negt_not e t v i : NegT e t -> ET cfg 7 (ENot e) (tk T_NOT v i :: t).
Proof. intros [(t0 & v1 & i1 & v2 & i2 & -> & H) | H]; [apply et_not_paren; exact H | apply et_not_test; exact H]. Qed.

(* compound expressions, from their parts *)
Lemma lexes_paren_et X k e : lvl k -> lexesP X (ET cfg k e) -> lexesP (paren X) (ET cfg 7 e) /\ lexesP (paren X) (NegT e).
Proof.
  intros Hk H. unfold paren. split.
  - apply (lexes_paren X (ET cfg k e)); [exact H|]. intros t v1 i1 v2 i2 Ht. apply et_paren. apply (et_down k e t Ht Hk).
  - apply (lexes_paren X (ET cfg k e)); [exact H|]. intros t v1 i1 v2 i2 Ht. left. exists t, v1, i1, v2, i2. split; [reflexivity | apply (et_down k e t Ht Hk)].
Qed.

Lemma hd_and : headok [38; 38]%N. Proof. exists 38%N, [38%N]. repeat split; discriminate. Qed.
Lemma hd_or : headok [124; 124]%N. Proof. exists 124%N, [124%N]. repeat split; discriminate. Qed.
Lemma hd_op o : headok (op_str o). Proof. destruct o; cbn [op_str]; eexists; eexists; (split; [reflexivity | repeat split; discriminate]). Qed.

Lemma bin_and X1 k1 a X2 k2 b : lvl k1 -> 5 <= k1 -> lvl k2 -> 4 <= k2 -> hd_str X2 ->
  lexesP X1 (ET cfg k1 a) -> lexesP X2 (ET cfg k2 b) -> lexesP (X1 ++ [32; 38; 38; 32]%N ++ X2) (ET cfg 4 (EAnd a b)).
Proof.
  intros L1 G1 L2 G2 Hh H1 H2.
  apply (lexes_bin X1 (ET cfg k1 a) X2 (ET cfg k2 b) [38; 38]%N T_AND); [exact H1 | exact H2 | apply hd_headok; exact Hh | apply hd_and | |].
  - intros fd ffd fcs r p bs T. apply (sf_and fd ffd fcs (32%N :: r) p bs T).
  - intros t1 t2 v i Ht1 Ht2. apply et_and; [apply (et_down k1 a t1 Ht1 L1); exact G1 | apply (et_down k2 b t2 Ht2 L2); exact G2].
Qed.
Lemma bin_or X1 k1 a X2 k2 b : lvl k1 -> 4 <= k1 -> lvl k2 -> hd_str X2 ->
  lexesP X1 (ET cfg k1 a) -> lexesP X2 (ET cfg k2 b) -> lexesP (X1 ++ [32; 124; 124; 32]%N ++ X2) (ET cfg 3 (EOr a b)).
Proof.
  intros L1 G1 L2 Hh H1 H2.
  apply (lexes_bin X1 (ET cfg k1 a) X2 (ET cfg k2 b) [124; 124]%N T_OR); [exact H1 | exact H2 | apply hd_headok; exact Hh | apply hd_or | |].
  - intros fd ffd fcs r p bs T. apply (sf_or fd ffd fcs (32%N :: r) p bs T).
  - intros t1 t2 v i Ht1 Ht2. apply et_or; [apply (et_down k1 a t1 Ht1 L1); exact G1 | apply (et_down k2 b t2 Ht2 L2)].
Qed.
Lemma bin_cmp X1 a X2 b o : hd_str X2 -> lexesP X1 (CT cfg a) -> lexesP X2 (CT cfg b) ->
  lexesP (X1 ++ [32%N] ++ op_str o ++ [32%N] ++ X2) (ET cfg 5 (ECmp o a b)).
Proof.
  intros Hh H1 H2.
  apply (lexes_bin X1 (CT cfg a) X2 (CT cfg b) (op_str o) (cmp_tok o)); [exact H1 | exact H2 | apply hd_headok; exact Hh | apply hd_op | |].
  - intros fd ffd fcs r p bs T. apply (sf_cmp fd ffd fcs o r p bs T).
  - intros t1 t2 v i Ht1 Ht2. apply et_cmp; assumption.
Qed.

(* --- the statement, by induction on the syntax tree ------------------------------------------------------------------------------- *)
Hypothesis Hone : in_range cfg 1 = true.          (* an omitted slice step is printed as 1 *)
Notation lo := (min_idx cfg).
Notation hi := (max_idx cfg).

Definition LogP (e : expr) : Prop :=
  lexesP (expr_str e) (ET cfg (xlevel e) (cn_expr e)) /\
  lexesP (nstr e) (NegT (cn_expr e)) /\
  (forall parent, lexesP (canon_str e parent) (ET cfg (clevel e parent) (cn_expr e))) /\
  lexesP (canon_str e 7) (NegT (cn_expr e)).
Definition Pe (e : expr) : Prop := forall want, wt_expr rg want e = true -> ir_expr lo hi e = true -> lx_expr e = true ->
  hd_str (expr_str e) /\ (forall parent, hd_str (canon_str e parent)) /\
  match want with
  | TValue => lexesP (expr_str e) (CT cfg (cn_expr e))
  | TNodes => lexesP (expr_str e) (TT cfg TNodes (cn_expr e))
  | TLogical => LogP e
  end.
Definition Ps (s : sel) : Prop := wt_sel rg s = true -> ir_sel lo hi s = true -> lx_sel s = true ->
  lexesSel (sel_str s) (SelT cfg (cn_sel s)) /\ (exists x tl, sel_str s = x :: tl /\ in_ranges x ws_ranges = false).
Definition Pg (g : seg) : Prop := wt_seg rg g = true -> ir_seg lo hi g = true -> lx_seg g = true -> lexesQ (seg_str g) (SegT cfg (cn_seg g)).

Lemma clevel4_ge e : 5 <= clevel e 4. Proof. destruct e; cbn; lia. Qed.
Lemma clevel3_ge e : 4 <= clevel e 3. Proof. destruct e; cbn; lia. Qed.
Lemma xlevel_ge e : 5 <= xlevel e. Proof. destruct e; cbn; lia. Qed.

Lemma case_and a b : LogP a -> LogP b -> hd_str (expr_str b) -> (forall p, hd_str (canon_str b p)) -> LogP (EAnd a b).
Proof.
  intros (LEa & _ & LCa & _) (LEb & _ & LCb & _) Hb Hcb.
  assert (In1 : lexesP (expr_str a ++ [32; 38; 38; 32]%N ++ expr_str b) (ET cfg 4 (EAnd (cn_expr a) (cn_expr b)))).
  { apply (bin_and _ (xlevel a) _ _ (xlevel b)); try assumption; try apply xlevel_lvl; try apply xlevel_ge. pose proof (xlevel_ge b). lia. }
  assert (In2 : lexesP (canon_str a 4 ++ [32; 38; 38; 32]%N ++ canon_str b 4) (ET cfg 4 (EAnd (cn_expr a) (cn_expr b)))).
  { apply (bin_and _ (clevel a 4) _ _ (clevel b 4)); try apply clevel_lvl; try apply clevel4_ge; [pose proof (clevel4_ge b); lia | apply Hcb | apply LCa | apply LCb]. }
  destruct (lexes_paren_et _ 4 _ ltac:(unfold lvl; auto) In1) as [P1 N1]. destruct (lexes_paren_et _ 4 _ ltac:(unfold lvl; auto) In2) as [P2 N2].
  split; [exact P1|]. split; [exact N1|]. split; [|exact N2].
  intros parent. cbn [canon_str clevel cn_expr]. cbv zeta. destruct (4 <=? parent); [exact P2 | exact In2].
Qed.
Lemma case_or a b : LogP a -> LogP b -> hd_str (expr_str b) -> (forall p, hd_str (canon_str b p)) -> LogP (EOr a b).
Proof.
  intros (LEa & _ & LCa & _) (LEb & _ & LCb & _) Hb Hcb.
  assert (In1 : lexesP (expr_str a ++ [32; 124; 124; 32]%N ++ expr_str b) (ET cfg 3 (EOr (cn_expr a) (cn_expr b)))).
  { apply (bin_or _ (xlevel a) _ _ (xlevel b)); try assumption; try apply xlevel_lvl. pose proof (xlevel_ge a). lia. }
  assert (In2 : lexesP (canon_str a 3 ++ [32; 124; 124; 32]%N ++ canon_str b 3) (ET cfg 3 (EOr (cn_expr a) (cn_expr b)))).
  { apply (bin_or _ (clevel a 3) _ _ (clevel b 3)); try apply clevel_lvl; [apply clevel3_ge | apply Hcb | apply LCa | apply LCb]. }
  destruct (lexes_paren_et _ 3 _ ltac:(unfold lvl; auto) In1) as [P1 N1]. destruct (lexes_paren_et _ 3 _ ltac:(unfold lvl; auto) In2) as [P2 N2].
  split; [exact P1|]. split; [exact N1|]. split; [|exact N2].
  intros parent. cbn [canon_str clevel cn_expr]. cbv zeta. destruct (3 <=? parent); [exact P2 | exact In2].
Qed.
Lemma case_cmp o a b : lexesP (expr_str a) (CT cfg (cn_expr a)) -> lexesP (expr_str b) (CT cfg (cn_expr b)) -> hd_str (expr_str b) -> LogP (ECmp o a b).
Proof.
  intros Ha Hb Hh.
  assert (In1 : lexesP (expr_str a ++ [32%N] ++ op_str o ++ [32%N] ++ expr_str b) (ET cfg 5 (ECmp o (cn_expr a) (cn_expr b)))) by (apply bin_cmp; assumption).
  destruct (lexes_paren_et _ 5 _ ltac:(unfold lvl; auto) In1) as [P1 N1].
  split; [exact In1|]. split; [exact N1|]. split; [|exact N1].
  intros parent. cbn [canon_str clevel cn_expr]. cbv zeta. destruct (7 <=? parent); [exact P1 | exact In1].
Qed.
Lemma case_not a : LogP a -> hd_str (expr_str a) -> (forall p, hd_str (canon_str a p)) -> LogP (ENot a).
Proof.
  intros (LEa & LNa & LCa & LC7a) Ha Hca.
  assert (Hn : hd_str (nstr a)) by (unfold nstr; destruct (is_cmp_or_not a); [unfold paren; apply hd_cons; try discriminate; reflexivity | exact Ha]).
  assert (In1 : lexesP (33%N :: nstr a) (ET cfg 7 (ENot (cn_expr a)))).
  { apply (lexes_not (nstr a) (NegT (cn_expr a))); [exact LNa | apply hd_ne61; exact Hn|]. intros t v i Ht. apply negt_not. exact Ht. }
  assert (In2 : lexesP (33%N :: canon_str a 7) (ET cfg 7 (ENot (cn_expr a)))).
  { apply (lexes_not (canon_str a 7) (NegT (cn_expr a))); [exact LC7a | apply hd_ne61; apply Hca|]. intros t v i Ht. apply negt_not. exact Ht. }
  assert (E1 : expr_str (ENot a) = 33%N :: nstr a) by (cbn [expr_str]; unfold nstr; destruct (is_cmp_or_not a); reflexivity).
  destruct (lexes_paren_et _ 7 _ ltac:(unfold lvl; auto) In1) as [P1 N1]. destruct (lexes_paren_et _ 7 _ ltac:(unfold lvl; auto) In2) as [P2 N2].
  split; [rewrite E1; exact In1|]. split; [unfold nstr; cbn [is_cmp_or_not]; rewrite E1; exact N1|]. split; [|cbn [canon_str]; cbv zeta; exact N2].
  intros parent. cbn [canon_str clevel cn_expr]. cbv zeta. destruct (7 <=? parent); [exact P2 | exact In2].
Qed.

(* --- literals ------------------------------------------------------------------------------------------------------------------------ *)
Lemma repr_int_head z : hd_str (repr_int z).
Proof.
  destruct (repr_int_ok z) as (_ & _ & (sign & body & E & Hs & Hb & Hd) & _). rewrite E.
  destruct Hs as [-> | ->]; cbn [app]; [|apply hd_cons; try discriminate; reflexivity].
  destruct body as [|d ds]; [congruence|]. cbn [forallb] in Hd. apply andb_true_iff in Hd as [Hd _]. unfold isd in Hd.
  apply hd_cons; [cbn [in_ranges ws_ranges] |..]; lia.
Qed.

Lemma case_lit v : lx_lit v = true -> is_container v = false -> hd_str (lit_str v) /\ lexesP (lit_str v) (CT cfg (ELit v)).
Proof.
  intros Hl Hc. destruct v as [| b | n | s | l | m]; try discriminate.
  - split; [apply hd_cons; try discriminate; reflexivity|].
    apply (lexes_word s_null T_NULL); [exact sf_null|]. intros i. apply ct_lit. right. right. left. split; reflexivity.
  - destruct b; (split; [apply hd_cons; try discriminate; reflexivity|]).
    + apply (lexes_word s_true T_TRUE); [exact sf_true|]. intros i. apply ct_lit. left. split; reflexivity.
    + apply (lexes_word s_false T_FALSE); [exact sf_false|]. intros i. apply ct_lit. right. left. split; reflexivity.
  - assert (Hflt : forall n0, n0 = n -> flt_rt n0 = true -> hd_str (repr_float n0) /\ lexesP (repr_float n0) (CT cfg (ELit (JNum n0)))).
    { intros n0 _ Hf. unfold flt_rt in Hf. apply andb_true_iff in Hf as [Hf Hx]. apply andb_true_iff in Hf as [Hform Hz]. apply negb_true_iff in Hz.
      destruct (py_float (repr_float n0)) as [x|] eqn:Ex; [|discriminate]. assert (Exn : x = n0).
      { destruct x, n0; cbn [num_same] in Hx; try discriminate; [apply Z.eqb_eq in Hx; subst; reflexivity | apply andb_true_iff in Hx as [A B]; apply Z.eqb_eq in A; apply Z.eqb_eq in B; subst; reflexivity | reflexivity | apply Bool.eqb_prop in Hx; subst; reflexivity]. }
      subst x. pose proof (float_formb_sound _ Hform) as Hff. destruct (float_form_head _ Hff) as (c0 & w' & Ew & Hc0). split.
      - rewrite Ew. assert (Hc4 : in_ranges c0 ws_ranges = false /\ c0 <> 46%N /\ c0 <> 91%N /\ c0 <> 61%N)
          by (destruct Hc0 as [-> | Hc0]; [repeat split; try reflexivity; discriminate | unfold isd in Hc0; cbn [in_ranges ws_ranges]; repeat split; lia]).
        destruct Hc4 as (A & B & C & D0). apply hd_cons; assumption.
      - apply (lexes_word (repr_float n0) T_FLOAT).
        + intros fd ffd fcs x0 r p bs T Hx0. apply sf_float_form; assumption.
        + intros i. apply ct_lit. right. right. right. right. right. split; [reflexivity|]. split; [exact Hz|]. exists n0. split; [exact Ex | reflexivity]. }
    destruct n as [z| m e | | s0]; cbn [lx_lit] in Hl; cbn [lit_str]; try (apply (Hflt _ eq_refl Hl)).
    unfold int_rt in Hl. apply andb_true_iff in Hl as [Hz Hf]. apply negb_true_iff in Hz.
    destruct (py_float (repr_int z)) as [x|] eqn:Ex; [|discriminate]. destruct (py_int_of_float x) as [z'|] eqn:Ez; [|discriminate]. apply Z.eqb_eq in Hf. subst z'.
    cbn [repr_float]. split; [apply repr_int_head|].
    destruct (repr_int_ok z) as (_ & _ & (sign & body & E & Hs & Hb & Hd) & _).
    apply (lexes_word (repr_int z) T_INT).
    + intros fd ffd fcs x0 r p bs T Hx. rewrite E. apply sf_int; assumption.
    + intros i. apply ct_lit. right. right. right. right. left. split; [reflexivity|]. split; [exact Hz|]. exists x. split; [exact Ex|]. cbn [tk tval]. rewrite Ez. reflexivity.
  - cbn [lx_lit] in Hl. cbn [lit_str]. change (m_canonical_string s) with (sel_str (SName s)). rewrite sel_str_name.
    split; [apply hd_cons; try discriminate; reflexivity|].
    apply (lexes_string (flat_map norm_char s)); [apply lex_ok_norm; exact Hl|].
    intros i. apply ct_lit. right. right. right. left. split; [left; reflexivity|]. exists s. split; [apply sq_decodes; exact Hl | reflexivity].
Qed.

(* --- queries ------------------------------------------------------------------------------------------------------------------------- *)
Lemma segs_text_flat q : (fix go (q : list seg) : str := match q with [] => [] | g :: q' => seg_str g ++ go q' end) q = flat_map seg_str q.
Proof. reflexivity. Qed.
Lemma wt_segs_forall q : (fix go (q : list seg) : bool := match q with [] => true | sg :: q' => wt_seg rg sg && go q' end) q = forallb (wt_seg rg) q.
Proof. induction q as [|g q IH]; [reflexivity|]. cbn [forallb]. rewrite IH. reflexivity. Qed.
Lemma ir_segs_forall q : (fix go (q : list seg) : bool := match q with [] => true | g :: q' => ir_seg lo hi g && go q' end) q = forallb (ir_seg lo hi) q.
Proof. induction q as [|g q IH]; [reflexivity|]. cbn [forallb]. rewrite IH. reflexivity. Qed.

Lemma lexes_segs q : Forall Pg q -> forallb (wt_seg rg) q = true -> forallb (ir_seg lo hi) q = true -> forallb lx_seg q = true ->
  lexesQ (flat_map seg_str q) (QT cfg (map cn_seg q)).
Proof.
  induction 1 as [|g q Hg _ IH]; intros Hw Hi Hl; cbn [flat_map map].
  - apply q_nil. apply qt_nil.
  - cbn [forallb] in *. apply andb_true_iff in Hw as [Hw1 Hw2]. apply andb_true_iff in Hi as [Hi1 Hi2]. apply andb_true_iff in Hl as [Hl1 Hl2].
    apply (q_cons _ (SegT cfg (cn_seg g)) _ (QT cfg (map cn_seg q))); [apply Hg; assumption | apply IH; assumption|].
    intros t1 t2 H1 H2. apply qt_cons; assumption.
Qed.

Lemma singular_cn q : singular (map cn_seg q) = singular q.
Proof.
  unfold singular. induction q as [|g q IH]; [reflexivity|]. cbn [map forallb]. rewrite IH. f_equal.
  destruct g as [ss|ss]; [|reflexivity]. rewrite cn_child. destruct ss as [|s [|s2 ss]]; cbn [map]; try reflexivity; destruct s; reflexivity.
Qed.

Lemma case_query (rel : bool) q : Forall Pg q -> Pe (if rel then ERel q else EAbs q).
Proof.
  intros HF want Hw Hi Hl.
  assert (Hparts : forallb (wt_seg rg) q = true /\ (want = TValue -> singular q = true) /\ forallb (ir_seg lo hi) q = true /\ forallb lx_seg q = true).
  { destruct rel; cbn [wt_expr ir_expr lx_expr] in *; rewrite wt_segs_forall in Hw; rewrite ir_segs_forall in Hi; rewrite lx_segs_forall in Hl;
      apply andb_true_iff in Hw as [Hw1 Hw2]; (repeat split; try assumption); intros ->; exact Hw2. }
  destruct Hparts as (Hw1 & Hsing & Hi1 & Hl1).
  pose proof (lexes_segs q HF Hw1 Hi1 Hl1) as HQ.
  assert (Etxt : expr_str (if rel then ERel q else EAbs q) = (if rel then 64%N else 36%N) :: flat_map seg_str q) by (destruct rel; reflexivity).
  assert (Ecan : forall p, canon_str (if rel then ERel q else EAbs q) p = (if rel then 64%N else 36%N) :: flat_map seg_str q) by (intros p; destruct rel; reflexivity).
  assert (Ecn : cn_expr (if rel then ERel q else EAbs q) = if rel then ERel (map cn_seg q) else EAbs (map cn_seg q)) by (destruct rel; reflexivity).
  assert (Hhd : hd_str ((if rel then 64%N else 36%N) :: flat_map seg_str q)) by (destruct rel; apply hd_cons; try discriminate; reflexivity).
  assert (HT : forall w, (w = TValue -> singular q = true) -> lexesP ((if rel then 64%N else 36%N) :: flat_map seg_str q) (TT cfg w (if rel then ERel (map cn_seg q) else EAbs (map cn_seg q)))).
  { intros w Hsw. apply (lexes_query rel _ (QT cfg (map cn_seg q))); [exact HQ|]. intros t v i Ht.
    destruct rel; [apply tt_rel | apply tt_abs]; try exact Ht; intros E; rewrite singular_cn; apply Hsw; exact E. }
  split; [rewrite Etxt; exact Hhd|]. split; [intros p; rewrite Ecan; exact Hhd|].
  rewrite Ecn. destruct want.
  - rewrite Etxt. intros fd ffd fcs bs fr p T Hok Hfr. destruct (HT TValue Hsing fd ffd fcs bs fr p T Hok Hfr) as (q0 & ts & Pt & R). exists q0, ts. split; [apply ct_test; exact Pt | exact R].
  - assert (HTL : lexesP ((if rel then 64%N else 36%N) :: flat_map seg_str q) (TT cfg TLogical (if rel then ERel (map cn_seg q) else EAbs (map cn_seg q)))) by (apply HT; discriminate).
    assert (H7 : lexesP ((if rel then 64%N else 36%N) :: flat_map seg_str q) (ET cfg 7 (if rel then ERel (map cn_seg q) else EAbs (map cn_seg q)))).
    { intros fd ffd fcs bs fr p T Hok Hfr. destruct (HTL fd ffd fcs bs fr p T Hok Hfr) as (q0 & ts & Pt & R). exists q0, ts. split; [apply et_test; exact Pt | exact R]. }
    assert (HN : lexesP ((if rel then 64%N else 36%N) :: flat_map seg_str q) (NegT (if rel then ERel (map cn_seg q) else EAbs (map cn_seg q)))).
    { intros fd ffd fcs bs fr p T Hok Hfr. destruct (HTL fd ffd fcs bs fr p T Hok Hfr) as (q0 & ts & Pt & R). exists q0, ts. split; [right; exact Pt | exact R]. }
    unfold LogP. rewrite Ecn. unfold nstr. rewrite !Ecan, Etxt.
    replace (xlevel (if rel then ERel q else EAbs q)) with 7 by (destruct rel; reflexivity).
    replace (is_cmp_or_not (if rel then ERel q else EAbs q)) with false by (destruct rel; reflexivity).
    split; [exact H7|]. split; [exact HN|]. split; [|exact HN]. intros parent. rewrite Ecan. replace (clevel (if rel then ERel q else EAbs q) parent) with 7 by (destruct rel; reflexivity). exact H7.
  - rewrite Etxt. apply HT. discriminate.
Qed.

(* --- function calls ------------------------------------------------------------------------------------------------------------------ *)
Definition args_text (args : list expr) : str := str_join [44; 32]%N (map expr_str args).
Lemma args_text_cons a b l : args_text (a :: b :: l) = expr_str a ++ 44%N :: 32%N :: args_text (b :: l).
Proof. reflexivity. Qed.
Lemma args_text_one a : args_text [a] = expr_str a.
Proof. unfold args_text. cbn [map str_join flat_map]. apply app_nil_r. Qed.
Lemma args_fix_map (args : list expr) : (fix go (l : list expr) : list str := match l with [] => [] | a :: l' => expr_str a :: go l' end) args = map expr_str args.
Proof. reflexivity. Qed.
Lemma wt_args_fix tys args : (fix go (tys : list ty3) (args : list expr) {struct args} : bool :=
     match args with
     | [] => match tys with [] => true | _ => false end
     | a :: args' => match tys with [] => false | t :: tys' => wt_expr rg t a && go tys' args' end
     end) tys args = true ->
  length args = length tys /\ Forall2 (fun t a => wt_expr rg t a = true) tys args.
Proof.
  revert tys. induction args as [|a args IH]; intros tys H; destruct tys as [|t tys]; try discriminate; [split; [reflexivity | constructor]|].
  apply andb_true_iff in H as [H1 H2]. destruct (IH tys H2) as [L F]. split; [cbn [length]; rewrite L; reflexivity | constructor; assumption].
Qed.

Lemma lexes_one_arg t a : Pe a -> wt_expr rg t a = true -> ir_expr lo hi a = true -> lx_expr a = true ->
  hd_str (expr_str a) /\ lexesP (expr_str a) (ArgT cfg t (cn_expr a)).
Proof.
  intros HP Hw Hi Hl. destruct (HP t Hw Hi Hl) as (Hh & _ & H). split; [exact Hh|]. destruct t.
  - intros fd ffd fcs bs fr p T Hok Hfr. destruct (H fd ffd fcs bs fr p T Hok Hfr) as (q & ts & Pt & R). exists q, ts. split; [apply ar_value; exact Pt | exact R].
  - destruct H as (LE & _). intros fd ffd fcs bs fr p T Hok Hfr. destruct (LE fd ffd fcs bs fr p T Hok Hfr) as (q & ts & Pt & R). exists q, ts.
    split; [apply ar_logical; apply (et_down _ _ _ Pt (xlevel_lvl a)) | exact R].
  - intros fd ffd fcs bs fr p T Hok Hfr. destruct (H fd ffd fcs bs fr p T Hok Hfr) as (q & ts & Pt & R). exists q, ts. split; [apply ar_nodes; exact Pt | exact R].
Qed.

Lemma lexes_args : forall args tys, Forall Pe args -> Forall2 (fun t a => wt_expr rg t a = true) tys args ->
  forallb (ir_expr lo hi) args = true -> forallb lx_expr args = true ->
  lexesA (args_text args) (ArgsT cfg tys (map cn_expr args)) /\ (args <> [] -> hd_str (args_text args)).
Proof.
  induction args as [|a args IH]; intros tys HF H2 Hi Hl.
  - inversion H2; subst. split; [apply lexesA_nil; apply as_nil | congruence].
  - inversion HF as [|? ? Ha HF']; subst. inversion H2 as [|t ? tys' ? Hwa H2']; subst.
    cbn [forallb] in Hi, Hl. apply andb_true_iff in Hi as [Hi1 Hi2]. apply andb_true_iff in Hl as [Hl1 Hl2].
    destruct (lexes_one_arg t a Ha Hwa Hi1 Hl1) as [Hh H1]. destruct (IH tys' HF' H2' Hi2 Hl2) as [HR HhR].
    destruct args as [|b args'].
    + inversion H2'; subst. rewrite args_text_one. split; [|intros _; exact Hh]. cbn [map]. apply (lexesA_one _ (ArgT cfg t (cn_expr a))); [exact H1|]. intros ts Ht. apply as_one. exact Ht.
    + split; [|intros _; rewrite args_text_cons; apply hd_app; exact Hh]. rewrite args_text_cons.
      apply (lexesA_cons _ (ArgT cfg t (cn_expr a)) _ (ArgsT cfg tys' (map cn_expr (b :: args')))); [exact H1 | exact HR | apply hd_headok; apply HhR; discriminate|].
      intros t1 t2 v i Ht1 Ht2. cbn [map]. apply as_cons; [exact Ht1 | exact Ht2 | discriminate].
Qed.

Lemma ir_args_forall l : (fix go (l : list expr) : bool := match l with [] => true | a :: l' => ir_expr lo hi a && go l' end) l = forallb (ir_expr lo hi) l.
Proof. induction l as [|g q IH]; [reflexivity|]. cbn [forallb]. rewrite IH. reflexivity. Qed.

Lemma case_call f args : Forall Pe args -> Pe (ECall f args).
Proof.
  intros HF want Hw Hi Hl. cbn [wt_expr] in Hw. destruct (find_assoc f rg) as [d|] eqn:Ef; [|discriminate].
  apply andb_true_iff in Hw as [Hret Hargs]. destruct (wt_args_fix _ _ Hargs) as [Hlen H2].
  cbn [ir_expr] in Hi. rewrite ir_args_forall in Hi. cbn [lx_expr] in Hl. rewrite lx_args_forall in Hl. apply andb_true_iff in Hl as [Hfn Hl].
  destruct f as [|c cs]; [discriminate|]. cbn [fname_okb] in Hfn. apply andb_true_iff in Hfn as [Hc Hcs].
  destruct (lexes_args args (f_args d) HF H2 Hi Hl) as [HA _].
  assert (Etxt : expr_str (ECall (c :: cs) args) = (c :: cs) ++ 40%N :: args_text args ++ [41%N]) by reflexivity.
  assert (Ecan : forall p, canon_str (ECall (c :: cs) args) p = (c :: cs) ++ 40%N :: args_text args ++ [41%N]) by reflexivity.
  assert (Hhd : hd_str ((c :: cs) ++ 40%N :: args_text args ++ [41%N])).
  { cbn [app]. unfold cls_fn_first in Hc. cbn [in_ranges] in Hc. apply hd_cons; [cbn [in_ranges ws_ranges]|..]; lia. }
  assert (HT : forall w, ret_ok w (f_ret d) = true -> lexesP ((c :: cs) ++ 40%N :: args_text args ++ [41%N]) (TT cfg w (ECall (c :: cs) (map cn_expr args)))).
  { intros w Hr. apply (lexes_call c cs _ (ArgsT cfg (f_args d) (map cn_expr args))); [exact Hc | exact Hcs | exact HA|].
    intros t i v2 i2 Ht. eapply tt_call; eassumption. }
  split; [rewrite Etxt; exact Hhd|]. split; [intros p; rewrite Ecan; exact Hhd|]. rewrite cn_call.
  destruct want.
  - rewrite Etxt. intros fd ffd fcs bs fr p T Hok Hfr. destruct (HT TValue Hret fd ffd fcs bs fr p T Hok Hfr) as (q0 & ts & Pt & R). exists q0, ts. split; [apply ct_test; exact Pt | exact R].
  - pose proof (HT TLogical Hret) as HTL.
    assert (H7 : lexesP ((c :: cs) ++ 40%N :: args_text args ++ [41%N]) (ET cfg 7 (ECall (c :: cs) (map cn_expr args)))).
    { intros fd ffd fcs bs fr p T Hok Hfr. destruct (HTL fd ffd fcs bs fr p T Hok Hfr) as (q0 & ts & Pt & R). exists q0, ts. split; [apply et_test; exact Pt | exact R]. }
    assert (HN : lexesP ((c :: cs) ++ 40%N :: args_text args ++ [41%N]) (NegT (ECall (c :: cs) (map cn_expr args)))).
    { intros fd ffd fcs bs fr p T Hok Hfr. destruct (HTL fd ffd fcs bs fr p T Hok Hfr) as (q0 & ts & Pt & R). exists q0, ts. split; [right; exact Pt | exact R]. }
    unfold LogP. rewrite cn_call. unfold nstr. cbn [is_cmp_or_not xlevel]. rewrite !Ecan, Etxt.
    split; [exact H7|]. split; [exact HN|]. split; [|exact HN]. intros parent. rewrite Ecan. cbn [clevel]. exact H7.
  - rewrite Etxt. apply HT. exact Hret.
Qed.

(* --- selectors and segments ----------------------------------------------------------------------------------------------------------- *)
Lemma lexesSel_weaken X (P P' : list token -> Prop) : (forall t, P t -> P' t) -> lexesSel X P -> lexesSel X P'.
Proof.
  intros HP H fd ffd fcs bs0 i0 r p T Hok. destruct (H fd ffd fcs bs0 i0 r p T Hok) as [(q & t & Pt & R) (q2 & q2' & t2 & Pt2 & R2)].
  split; [exists q, t; split; [apply HP; exact Pt | exact R] | exists q2, q2', t2; split; [apply HP; exact Pt2 | exact R2]].
Qed.

Lemma case_sel_plain s : (match s with SFilter _ => False | _ => True end) -> Ps s.
Proof.
  intros Hnf Hw Hi Hl.
  assert (Hok : sel_ok s) by (destruct s; cbn [sel_ok lx_sel] in *; try exact I; try exact Hl; contradiction).
  assert (Hr : sel_range cfg s).
  { destruct s as [k|i|a b c| |e]; cbn [sel_range ir_sel] in *; try exact I; [exact Hi|].
    apply andb_true_iff in Hi as [Hi Hc]. apply andb_true_iff in Hi as [Ha Hb].
    repeat split; [destruct a; [exact Ha | exact I] | destruct b; [exact Hb | exact I] | destruct c; [exact Hc | exact Hone]]. }
  split; [|destruct (sel_str_head s Hok) as (c & r & E & Hc); eauto].
  apply (lexesSel_weaken _ (fun ts => exists p, ts = sel_toks s p)); [|apply sel_plain; exact Hok].
  intros t [p ->]. apply sel_toks_grammar; assumption.
Qed.
Lemma case_sel_filter e : Pe e -> Ps (SFilter e).
Proof.
  intros He Hw Hi Hl. cbn [wt_sel ir_sel lx_sel] in *. destruct (He TLogical Hw Hi Hl) as (_ & _ & (_ & _ & LC & _)).
  split; [|eexists; eexists; split; [reflexivity | reflexivity]].
  cbn [sel_str cn_sel]. apply (sel_filter _ (ET cfg (clevel e 1) (cn_expr e))); [apply LC|].
  intros t v i Ht. apply st_filter. apply (et_down _ _ _ Ht (clevel_lvl e 1)).
Qed.

Lemma wt_sels_forall l : (fix go (ss : list sel) : bool := match ss with [] => true | s :: ss' => wt_sel rg s && go ss' end) l = forallb (wt_sel rg) l.
Proof. induction l as [|g q IH]; [reflexivity|]. cbn [forallb]. rewrite IH. reflexivity. Qed.
Lemma ir_sels_forall l : (fix go (l : list sel) : bool := match l with [] => true | s :: l' => ir_sel lo hi s && go l' end) l = forallb (ir_sel lo hi) l.
Proof. induction l as [|g q IH]; [reflexivity|]. cbn [forallb]. rewrite IH. reflexivity. Qed.

Lemma sels_text_cons s s2 l : sels_text (s :: s2 :: l) = sel_str s ++ 44%N :: 32%N :: sels_text (s2 :: l).
Proof. reflexivity. Qed.
Lemma sels_text_one s : sels_text [s] = sel_str s.
Proof. unfold sels_text. cbn [map str_join flat_map]. apply app_nil_r. Qed.

Lemma lexes_sels : forall ss, ss <> [] -> Forall Ps ss -> forallb (wt_sel rg) ss = true -> forallb (ir_sel lo hi) ss = true -> forallb lx_sel ss = true ->
  lexesSels (sels_text ss) (SelsT cfg (map cn_sel ss)) /\ (exists x tl, sels_text ss = x :: tl /\ in_ranges x ws_ranges = false).
Proof.
  induction ss as [|s ss IH]; intros Hne HF Hw Hi Hl; [congruence|].
  inversion HF as [|? ? Hs HF']; subst. cbn [forallb] in *. apply andb_true_iff in Hw as [Hw1 Hw2]. apply andb_true_iff in Hi as [Hi1 Hi2]. apply andb_true_iff in Hl as [Hl1 Hl2].
  destruct (Hs Hw1 Hi1 Hl1) as [H1 (x & tl & Ex & Hx)].
  destruct ss as [|s2 ss'].
  - rewrite sels_text_one. split; [|eauto]. cbn [map]. apply (sels_one _ (SelT cfg (cn_sel s))); [exact H1|]. intros t Ht. apply ss_one. exact Ht.
  - destruct (IH ltac:(discriminate) HF' Hw2 Hi2 Hl2) as [HR HhR]. rewrite sels_text_cons.
    split; [|exists x, (tl ++ 44%N :: 32%N :: sels_text (s2 :: ss')); rewrite Ex; split; [reflexivity | exact Hx]].
    apply (sels_cons _ (SelT cfg (cn_sel s)) _ (SelsT cfg (map cn_sel (s2 :: ss')))); [exact H1 | exact HR | exact HhR|].
    intros t1 t2 v i Ht1 Ht2. cbn [map]. apply ss_cons; assumption.
Qed.

Lemma case_seg (desc : bool) ss : Forall Ps ss -> Pg (if desc then Desc ss else Child ss).
Proof.
  intros HF Hw Hi Hl.
  assert (Hparts : ss <> [] /\ forallb (wt_sel rg) ss = true /\ forallb (ir_sel lo hi) ss = true /\ forallb lx_sel ss = true).
  { destruct desc; cbn [wt_seg ir_seg lx_seg] in *; rewrite wt_sels_forall in Hw; rewrite ir_sels_forall in Hi; apply andb_true_iff in Hl as [Hne Hl]; rewrite lx_sels_forall in Hl;
      (repeat split; try assumption); destruct ss; discriminate. }
  destruct Hparts as (Hne & Hw1 & Hi1 & Hl1). destruct (lexes_sels ss Hne HF Hw1 Hi1 Hl1) as [HS _].
  destruct desc; rewrite seg_str_text.
  - rewrite cn_desc. apply (seg_desc _ (SelsT cfg (map cn_sel ss))); [exact HS|]. intros t v0 i0 v1 i1 v2 i2 Ht. apply sg_dbr. exact Ht.
  - rewrite cn_child. apply (seg_child _ (SelsT cfg (map cn_sel ss))); [exact HS|]. intros t v1 i1 v2 i2 Ht. apply sg_br. exact Ht.
Qed.

(* --- every selector, expression and segment ------------------------------------------------------------------------------------------- *)
Theorem canon_all : (forall s, Ps s) /\ (forall e, Pe e) /\ (forall g, Pg g).
Proof.
  apply AstInd.ast_ind.
  - intros k. apply case_sel_plain. exact I.
  - intros i. apply case_sel_plain. exact I.
  - intros a b c. apply case_sel_plain. exact I.
  - apply case_sel_plain. exact I.
  - intros e He. apply case_sel_filter. exact He.
  - (* literal *) intros v want Hw Hi Hl. cbn [wt_expr] in Hw. destruct want; try discriminate. apply negb_true_iff in Hw.
    destruct (case_lit v Hl Hw) as [Hh H]. split; [exact Hh|]. split; [intros p; exact Hh | exact H].
  - intros q HF. apply (case_query true q HF).
  - intros q HF. apply (case_query false q HF).
  - intros f args HF. apply case_call. exact HF.
  - (* not *) intros a Ha want Hw Hi Hl. cbn [wt_expr ir_expr lx_expr] in *. apply andb_true_iff in Hw as [Hlg Hw]. destruct want; try discriminate.
    destruct (Ha TLogical Hw Hi Hl) as (Hh & Hc & HL).
    split; [cbn [expr_str]; destruct (is_cmp_or_not a); apply hd_cons; try discriminate; reflexivity|].
    split; [intros p; cbn [canon_str]; cbv zeta; destruct (7 <=? p); [unfold paren|]; apply hd_cons; try discriminate; reflexivity|].
    apply case_not; assumption.
  - (* and *) intros a b Ha Hb want Hw Hi Hl. cbn [wt_expr ir_expr lx_expr] in *. apply andb_true_iff in Hw as [Hw Hwb]. apply andb_true_iff in Hw as [Hlg Hwa]. destruct want; try discriminate.
    apply andb_true_iff in Hi as [Hia Hib]. apply andb_true_iff in Hl as [Hla Hlb].
    destruct (Ha TLogical Hwa Hia Hla) as (Hha & Hca & HLa). destruct (Hb TLogical Hwb Hib Hlb) as (Hhb & Hcb & HLb).
    split; [cbn [expr_str]; unfold paren; apply hd_cons; try discriminate; reflexivity|].
    split; [intros p; cbn [canon_str]; cbv zeta; destruct (4 <=? p); [unfold paren; apply hd_cons; try discriminate; reflexivity | apply hd_app; apply Hca]|].
    apply case_and; assumption.
  - (* or *) intros a b Ha Hb want Hw Hi Hl. cbn [wt_expr ir_expr lx_expr] in *. apply andb_true_iff in Hw as [Hw Hwb]. apply andb_true_iff in Hw as [Hlg Hwa]. destruct want; try discriminate.
    apply andb_true_iff in Hi as [Hia Hib]. apply andb_true_iff in Hl as [Hla Hlb].
    destruct (Ha TLogical Hwa Hia Hla) as (Hha & Hca & HLa). destruct (Hb TLogical Hwb Hib Hlb) as (Hhb & Hcb & HLb).
    split; [cbn [expr_str]; unfold paren; apply hd_cons; try discriminate; reflexivity|].
    split; [intros p; cbn [canon_str]; cbv zeta; destruct (3 <=? p); [unfold paren; apply hd_cons; try discriminate; reflexivity | apply hd_app; apply Hca]|].
    apply case_or; assumption.
  - (* comparison *) intros o a b Ha Hb want Hw Hi Hl. cbn [wt_expr ir_expr lx_expr] in *. apply andb_true_iff in Hw as [Hw Hwb]. apply andb_true_iff in Hw as [Hlg Hwa]. destruct want; try discriminate.
    apply andb_true_iff in Hi as [Hia Hib]. apply andb_true_iff in Hl as [Hla Hlb].
    destruct (Ha TValue Hwa Hia Hla) as (Hha & _ & HLa). destruct (Hb TValue Hwb Hib Hlb) as (Hhb & _ & HLb).
    split; [cbn [expr_str]; apply hd_app; exact Hha|].
    split; [intros p; cbn [canon_str]; cbv zeta; destruct (7 <=? p); [unfold paren; apply hd_cons; try discriminate; reflexivity | apply hd_app; exact Hha]|].
    apply case_cmp; assumption.
  - intros ss HF. apply (case_seg false ss HF).
  - intros ss HF. apply (case_seg true ss HF).
Qed.
End Canon.

(* ================= compile(str(q)) ===================================================================================================== *)
From JP Require Import Proofs.LexTerm Proofs.AstInd.

Lemma lex_run_of_steps : forall n st l l', lex_steps n st l = LStop l' -> forall F, lex_run F st l = Ok l' \/ lex_run F st l = OutOfFuel.
Proof.
  induction n as [|n IH]; intros st l l' H F; cbn [lex_steps] in H; [discriminate|]. destruct F as [|F]; [right; reflexivity|]. cbn [lex_run].
  destruct (lex_step st l) as [st1 l1|l1|c o|x]; try discriminate; [apply (IH st1 l1 l' H F) | inversion H; left; reflexivity].
Qed.
Lemma lex_run_init_terminates q : lex_run (lex_fuel q) SRoot (lexer_init q) <> OutOfFuel.
Proof. apply lex_run_terminates. unfold Phi, L, lex_fuel, lexer_init. cbn [l_rest]. pose proof (rank_le SRoot (lexer_init q)). unfold lexer_init in H. lia. Qed.

Theorem tokenize_str_f cfg q : in_range cfg 1 = true -> wt_query (reg cfg) q = true -> ints_in_range (min_idx cfg) (max_idx cfg) q = true -> lx_query q = true ->
  exists ts i, QT cfg (map cn_seg q) ts /\ m_tokenize (m_str q) = Ok (tk T_ROOT [36%N] 0 :: ts ++ [tk T_EOF [] i]).
Proof.
  intros Hone Hw Hi Hl. destruct (canon_all cfg Hone) as (_ & _ & Hg).
  assert (HF : Forall (Pg cfg) q) by (apply Forall_forall; intros g _; apply Hg).
  pose proof (lexes_segs cfg q HF Hw Hi Hl) as HQ.
  destruct (HQ 0 [] [] [] [] 1 [tk T_ROOT [36%N] 0] ltac:(split; [lia | constructor])) as (q0 & ts & Pts & R). rewrite app_nil_r in R.
  exists ts, q0. split; [exact Pts|]. unfold m_tokenize, m_str.
  assert (R0 : reachS SRoot (lexer_init (36%N :: flat_map seg_str q)) SSegment (G 0 [] [] [] q0 [] (rev ts ++ [tk T_ROOT [36%N] 0]))).
  { eapply reachS_trans; [apply reachS_step; apply (step_root 0 [] [] (flat_map seg_str q))|]. exact R. }
  destruct (reachS_stop _ _ _ _ _ R0 (step_seg_eof 0 [] [] [] q0 _)) as [n Hn].
  destruct (lex_run_of_steps n _ _ _ Hn (lex_fuel (36%N :: flat_map seg_str q))) as [E | E]; [|exfalso; exact (lex_run_init_terminates _ E)].
  rewrite E. cbn [bind l_toks l_bs LX]. change (ttype_eqb (ty (tk T_EOF [] q0)) T_ERROR) with false. cbv iota.
  cbn [rev]. rewrite rev_app_distr, rev_involutive. reflexivity.
Qed.

Theorem compile_str_f cfg q : in_range cfg 1 = true -> wt_query (reg cfg) q = true -> ints_in_range (min_idx cfg) (max_idx cfg) q = true -> lx_query q = true ->
  m_compile cfg (m_str q) = Ok (map cn_seg q).
Proof.
  intros Hone Hw Hi Hl. destruct (tokenize_str_f cfg q Hone Hw Hi Hl) as (ts & i & HQ & E).
  unfold m_compile. rewrite E. cbn [bind]. destruct (parse_complete cfg _ ts [36%N] 0 [] i HQ) as [s Es]. rewrite Es. reflexivity.
Qed.

(* ================= the canonical query prints the same text and selects the same nodes ================================================== *)
From JP Require Import Spec.Sem Spec.Slice.

Definition Qs (s : sel) : Prop := sel_str (cn_sel s) = sel_str s /\ forall rg rx root n, s_sel rg rx root (cn_sel s) n = s_sel rg rx root s n.
Definition Qe (e : expr) : Prop :=
  expr_str (cn_expr e) = expr_str e /\ (forall p, canon_str (cn_expr e) p = canon_str e p) /\ is_cmp_or_not (cn_expr e) = is_cmp_or_not e /\
  forall rg rx want root cur, s_expr rg rx want root cur (cn_expr e) = s_expr rg rx want root cur e.
Definition Qg (g : seg) : Prop := seg_str (cn_seg g) = seg_str g /\ forall rg rx root ns, s_seg rg rx root (cn_seg g) ns = s_seg rg rx root g ns.

Lemma segs_str_cn q : Forall Qg q -> flat_map seg_str (map cn_seg q) = flat_map seg_str q.
Proof. induction 1 as [|g q [Hg _] _ IH]; [reflexivity|]. cbn [map flat_map]. rewrite Hg, IH. reflexivity. Qed.
Lemma segs_sem_cn rg rx root q : Forall Qg q -> forall ns,
  (fix segs (q : list seg) (ns : list node) : list node := match q with [] => ns | sg :: q' => segs q' (s_seg rg rx root sg ns) end) (map cn_seg q) ns
  = (fix segs (q : list seg) (ns : list node) : list node := match q with [] => ns | sg :: q' => segs q' (s_seg rg rx root sg ns) end) q ns.
Proof. induction 1 as [|g q [_ Hg] _ IH]; intros ns; [reflexivity|]. cbn [map]. rewrite Hg. apply IH. Qed.
Lemma sels_str_cn ss : Forall Qs ss -> map sel_str (map cn_sel ss) = map sel_str ss.
Proof. induction 1 as [|s ss [Hs _] _ IH]; [reflexivity|]. cbn [map]. rewrite Hs, IH. reflexivity. Qed.
Lemma sels_sem_cn rg rx root n ss : Forall Qs ss ->
  (fix go (ss : list sel) : list node := match ss with [] => [] | s :: ss' => s_sel rg rx root s n ++ go ss' end) (map cn_sel ss)
  = (fix go (ss : list sel) : list node := match ss with [] => [] | s :: ss' => s_sel rg rx root s n ++ go ss' end) ss.
Proof. induction 1 as [|s ss [_ Hs] _ IH]; [reflexivity|]. cbn [map]. rewrite Hs, IH. reflexivity. Qed.
Lemma args_str_cn args : Forall Qe args -> map expr_str (map cn_expr args) = map expr_str args.
Proof. induction 1 as [|a l (Ha & _) _ IH]; [reflexivity|]. cbn [map]. rewrite Ha, IH. reflexivity. Qed.
Lemma args_sem_cn rg rx root cur args : Forall Qe args -> forall tys,
  (fix go (tys : list ty3) (args : list expr) {struct args} : list sval :=
     match args with [] => [] | a :: args' => match tys with [] => [] | t :: tys' => s_expr rg rx t root cur a :: go tys' args' end end) tys (map cn_expr args)
  = (fix go (tys : list ty3) (args : list expr) {struct args} : list sval :=
     match args with [] => [] | a :: args' => match tys with [] => [] | t :: tys' => s_expr rg rx t root cur a :: go tys' args' end end) tys args.
Proof. induction 1 as [|a l (_ & _ & _ & Ha) _ IH]; intros tys; [reflexivity|]. cbn [map]. destruct tys as [|t tys]; [reflexivity|]. rewrite Ha, IH. reflexivity. Qed.

Lemma seg_str_sels g : seg_str g = match g with Child ss => 91%N :: str_join [44; 32]%N (map sel_str ss) ++ [93%N] | Desc ss => [46; 46; 91]%N ++ str_join [44; 32]%N (map sel_str ss) ++ [93%N] end.
Proof. destruct g; reflexivity. Qed.

Theorem cn_same : (forall s, Qs s) /\ (forall e, Qe e) /\ (forall g, Qg g).
Proof.
  apply ast_ind; unfold Qs, Qe, Qg.
  - intros k. split; reflexivity.
  - intros i. split; reflexivity.
  - intros a b c. split; [cbn [cn_sel sel_str]; rewrite (opt_step_text c); reflexivity | reflexivity].
  - split; reflexivity.
  - intros e (_ & Hc & _ & Hs). split; [cbn [cn_sel sel_str]; rewrite Hc; reflexivity|].
    intros rg rx root n. cbn [cn_sel].
    change (s_sel rg rx root (SFilter (cn_expr e)) n) with (filter (fun c => as_bool (s_expr rg rx TLogical root (snd c) (cn_expr e))) (children n)).
    change (s_sel rg rx root (SFilter e) n) with (filter (fun c => as_bool (s_expr rg rx TLogical root (snd c) e)) (children n)).
    apply filter_ext. intros c. rewrite Hs. reflexivity.
  - intros v. repeat split.
  - intros q HF. rewrite cn_rel. repeat split.
    + cbn [expr_str]. f_equal. apply (segs_str_cn q HF).
    + intros p. cbn [canon_str]. f_equal. apply (segs_str_cn q HF).
    + intros rg rx want root cur. cbn [s_expr]. rewrite (segs_sem_cn rg rx root q HF). reflexivity.
  - intros q HF. rewrite cn_abs. repeat split.
    + cbn [expr_str]. f_equal. apply (segs_str_cn q HF).
    + intros p. cbn [canon_str]. f_equal. apply (segs_str_cn q HF).
    + intros rg rx want root cur. cbn [s_expr]. rewrite (segs_sem_cn rg rx root q HF). reflexivity.
  - intros f args HF. rewrite cn_call. repeat split.
    + cbn [expr_str]. f_equal. unfold paren. f_equal. f_equal. f_equal. apply (args_str_cn args HF).
    + intros p. cbn [canon_str]. f_equal. unfold paren. f_equal. f_equal. f_equal. apply (args_str_cn args HF).
    + intros rg rx want root cur. cbn [s_expr]. destruct (find_assoc f rg); [|reflexivity]. rewrite (args_sem_cn rg rx root cur args HF). reflexivity.
  - intros a (Ha & Hc & Hi & Hs). repeat split.
    + cbn [cn_expr expr_str]. rewrite Hi, Ha. reflexivity.
    + intros p. cbn [cn_expr canon_str]. rewrite Hc. reflexivity.
    + intros rg rx want root cur. cbn [cn_expr s_expr]. rewrite Hs. reflexivity.
  - intros a b (Ha & Hca & _ & Hsa) (Hb & Hcb & _ & Hsb). repeat split.
    + cbn [cn_expr expr_str]. rewrite Ha, Hb. reflexivity.
    + intros p. cbn [cn_expr canon_str]. rewrite !Hca, !Hcb. reflexivity.
    + intros rg rx want root cur. cbn [cn_expr s_expr]. rewrite Hsa, Hsb. reflexivity.
  - intros a b (Ha & Hca & _ & Hsa) (Hb & Hcb & _ & Hsb). repeat split.
    + cbn [cn_expr expr_str]. rewrite Ha, Hb. reflexivity.
    + intros p. cbn [cn_expr canon_str]. rewrite !Hca, !Hcb. reflexivity.
    + intros rg rx want root cur. cbn [cn_expr s_expr]. rewrite Hsa, Hsb. reflexivity.
  - intros o a b (Ha & Hca & _ & Hsa) (Hb & Hcb & _ & Hsb). repeat split.
    + cbn [cn_expr expr_str]. rewrite Ha, Hb. reflexivity.
    + intros p. cbn [cn_expr canon_str]. rewrite Ha, Hb. reflexivity.
    + intros rg rx want root cur. cbn [cn_expr s_expr]. rewrite Hsa, Hsb. reflexivity.
  - intros ss HF. rewrite cn_child. split; [rewrite !seg_str_sels; rewrite (sels_str_cn ss HF); reflexivity|].
    intros rg rx root ns. cbn [s_seg]. apply flat_map_ext. intros n. apply (sels_sem_cn rg rx root n ss HF).
  - intros ss HF. rewrite cn_desc. split; [rewrite !seg_str_sels; rewrite (sels_str_cn ss HF); reflexivity|].
    intros rg rx root ns. cbn [s_seg]. apply flat_map_ext. intros n. apply flat_map_ext. intros d. apply (sels_sem_cn rg rx root d ss HF).
Qed.

Theorem str_cn q : m_str (map cn_seg q) = m_str q.
Proof. unfold m_str. f_equal. apply segs_str_cn. apply Forall_forall. intros g _. apply cn_same. Qed.
Theorem sem_cn rg rx q v : sem rg rx (map cn_seg q) v = sem rg rx q v.
Proof.
  unfold sem, s_segs. generalize [(@nil key, v)]. induction q as [|g q IH]; intros ns; [reflexivity|].
  cbn [map run_segs_s]. rewrite (proj2 (proj2 (proj2 cn_same) g)). apply IH.
Qed.
