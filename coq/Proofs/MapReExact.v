(* map_re on the lexical structure of a pattern: escape pairs, character classes (their items escape pairs or characters other than
   backslash and brackets), dots, other characters.  For every such sequence - every I-Regexp is one - map_re copies everything and
   replaces exactly the dots that are neither escaped nor inside a class. *)
From JP Require Import Base.Prelude Model.MapRe.

Inductive citm := KEsc (c : N) | KRaw (c : N).
Inductive ptok := PEsc (c : N) | PDot | PClass (items : list citm) | PRaw (c : N).
Definition citm_ok (i : citm) : bool :=
  match i with KEsc _ => true | KRaw c => negb (N.eqb c 92) && negb (N.eqb c 91) && negb (N.eqb c 93) end.
Definition ptok_ok (t : ptok) : bool :=
  match t with
  | PRaw c => negb (N.eqb c 46) && negb (N.eqb c 92) && negb (N.eqb c 91) && negb (N.eqb c 93)
  | PClass items => forallb citm_ok items
  | _ => true
  end.
Definition pr_citm (i : citm) : str := match i with KEsc c => [92%N; c] | KRaw c => [c] end.
(* the text of a token: as written in the pattern, or as handed to the host regex engine *)
Definition pr_tok (host : bool) (t : ptok) : str :=
  match t with
  | PEsc c => [92%N; c]
  | PDot => if host then dot_replacement else [46%N]
  | PClass items => 91%N :: flat_map pr_citm items ++ [93%N]
  | PRaw c => [c]
  end.
Definition pr (host : bool) (ts : list ptok) : str := flat_map (pr_tok host) ts.

Lemma class_loop items : forallb citm_ok items = true -> forall rest,
  map_re_loop (flat_map pr_citm items ++ 93%N :: rest) false true = flat_map pr_citm items ++ 93%N :: map_re_loop rest false false.
Proof.
  induction items as [|i items IH]; intros H rest; [reflexivity|]. cbn [forallb] in H. apply andb_true_iff in H as [Hi H].
  destruct i as [c | c]; cbn [flat_map pr_citm app map_re_loop].
  - change (N.eqb 92 46) with false. change (N.eqb 92 92) with true. cbn [app]. rewrite IH by exact H. reflexivity.
  - cbn [citm_ok] in Hi. apply andb_true_iff in Hi as [Hi H93]. apply andb_true_iff in Hi as [H92 H91].
    apply negb_true_iff in H92, H91, H93.
    destruct (N.eqb c 46); [cbn [app]; rewrite IH by exact H; reflexivity|]. rewrite H92, H91, H93, IH by exact H. reflexivity.
Qed.

Lemma map_re_tokens ts : forallb ptok_ok ts = true -> map_re_loop (pr false ts) false false = pr true ts.
Proof.
  induction ts as [|t ts IH]; intros H; [reflexivity|]. cbn [forallb] in H. apply andb_true_iff in H as [Ht H]. specialize (IH H).
  unfold pr in *. cbn [flat_map]. destruct t as [c | | items | c]; cbn [pr_tok app].
  - cbn [map_re_loop]. change (N.eqb 92 46) with false. change (N.eqb 92 92) with true. cbn [app]. rewrite IH. reflexivity.
  - cbn [map_re_loop]. change (N.eqb 46 46) with true. cbn [app]. rewrite IH. reflexivity.
  - cbn [map_re_loop]. change (N.eqb 91 46) with false. change (N.eqb 91 92) with false. change (N.eqb 91 91) with true.
    rewrite <- app_assoc. cbn [app]. rewrite class_loop by exact Ht. rewrite IH, <- app_assoc. reflexivity.
  - cbn [ptok_ok] in Ht. apply andb_true_iff in Ht as [Ht H93]. apply andb_true_iff in Ht as [Ht H91]. apply andb_true_iff in Ht as [H46 H92].
    apply negb_true_iff in H46, H92, H91, H93. cbn [map_re_loop]. rewrite H46, H92, H91, H93, IH. reflexivity.
Qed.

Theorem map_re_exact ts : forallb ptok_ok ts = true -> m_map_re (pr false ts) = pr true ts.
Proof. apply map_re_tokens. Qed.

(* reading a pattern into that structure; None for a trailing backslash, an unclosed class or a closing bracket outside a class *)
Fixpoint plex_class (fuel : nat) (s : str) (acc : list citm) : option (list citm * str) :=
  match fuel with
  | O => None
  | S f =>
      match s with
      | [] => None
      | c :: r =>
          if N.eqb c 93 then Some (rev acc, r)
          else if N.eqb c 92 then match r with d :: r' => plex_class f r' (KEsc d :: acc) | [] => None end
          else if N.eqb c 91 then None
          else plex_class f r (KRaw c :: acc)
      end
  end.
Fixpoint plex (fuel : nat) (s : str) : option (list ptok) :=
  match fuel with
  | O => None
  | S f =>
      match s with
      | [] => Some []
      | c :: r =>
          if N.eqb c 46 then option_map (cons PDot) (plex f r)
          else if N.eqb c 92 then match r with d :: r' => option_map (cons (PEsc d)) (plex f r') | [] => None end
          else if N.eqb c 91 then match plex_class (S (length r)) r [] with Some (items, r') => option_map (cons (PClass items)) (plex f r') | None => None end
          else if N.eqb c 93 then None
          else option_map (cons (PRaw c)) (plex f r)
      end
  end.

Lemma plex_class_sound : forall fuel s acc items r, forallb citm_ok acc = true -> plex_class fuel s acc = Some (items, r) ->
  forallb citm_ok items = true /\ flat_map pr_citm (rev acc) ++ s = flat_map pr_citm items ++ 93%N :: r.
Proof.
  induction fuel as [|f IH]; intros s acc items r Ha H; [discriminate|]. cbn [plex_class] in H. destruct s as [|c s]; [discriminate|].
  destruct (N.eqb c 93) eqn:E93.
  - inversion H; subst. apply N.eqb_eq in E93. subst c. split; [|reflexivity]. rewrite forallb_forall in *. intros x Hx. apply Ha. apply in_rev. exact Hx.
  - destruct (N.eqb c 92) eqn:E92.
    + destruct s as [|d s]; [discriminate|]. apply N.eqb_eq in E92. subst c.
      destruct (IH s (KEsc d :: acc) items r ltac:(cbn [forallb citm_ok]; exact Ha) H) as [Hi E]. split; [exact Hi|].
      rewrite <- E. cbn [rev]. rewrite flat_map_app. cbn [flat_map pr_citm app]. rewrite <- app_assoc. reflexivity.
    + destruct (N.eqb c 91) eqn:E91; [discriminate|].
      destruct (IH s (KRaw c :: acc) items r ltac:(cbn [forallb citm_ok]; rewrite E92, E91, E93; exact Ha) H) as [Hi E]. split; [exact Hi|].
      rewrite <- E. cbn [rev]. rewrite flat_map_app. cbn [flat_map pr_citm app]. rewrite <- app_assoc. reflexivity.
Qed.

Lemma plex_sound : forall fuel s ts, plex fuel s = Some ts -> forallb ptok_ok ts = true /\ pr false ts = s.
Proof.
  induction fuel as [|f IH]; intros s ts H; [discriminate|]. cbn [plex] in H. destruct s as [|c s]; [inversion H; subst; split; reflexivity|].
  destruct (N.eqb c 46) eqn:E46.
  - destruct (plex f s) as [ts'|] eqn:E; [|discriminate]. inversion H; subst. destruct (IH s ts' E) as [A B]. apply N.eqb_eq in E46. subst c.
    split; [exact A | unfold pr in *; cbn [flat_map pr_tok app]; rewrite B; reflexivity].
  - destruct (N.eqb c 92) eqn:E92.
    + destruct s as [|d s]; [discriminate|]. destruct (plex f s) as [ts'|] eqn:E; [|discriminate]. inversion H; subst. destruct (IH s ts' E) as [A B].
      apply N.eqb_eq in E92. subst c. split; [exact A | unfold pr in *; cbn [flat_map pr_tok app]; rewrite B; reflexivity].
    + destruct (N.eqb c 91) eqn:E91.
      * destruct (plex_class (S (length s)) s []) as [[items r']|] eqn:Ec; [|discriminate].
        destruct (plex f r') as [ts'|] eqn:E; [|discriminate]. inversion H; subst. destruct (IH r' ts' E) as [A B].
        destruct (plex_class_sound _ s [] items r' eq_refl Ec) as [Hi Es]. cbn [rev flat_map app] in Es. apply N.eqb_eq in E91. subst c.
        split; [cbn [forallb ptok_ok]; rewrite Hi; exact A|]. unfold pr in *. cbn [flat_map pr_tok]. rewrite B. cbn [app]. f_equal. rewrite <- app_assoc. cbn [app]. symmetry. exact Es.
      * destruct (N.eqb c 93) eqn:E93; [discriminate|]. destruct (plex f s) as [ts'|] eqn:E; [|discriminate]. inversion H; subst. destruct (IH s ts' E) as [A B].
        split; [cbn [forallb ptok_ok]; rewrite E46, E92, E91, E93; exact A | unfold pr in *; cbn [flat_map pr_tok app]; rewrite B; reflexivity].
Qed.

(* every pattern that reads as escape pairs, classes, dots and other characters at all *)
Theorem map_re_lexed p ts : plex (S (length p)) p = Some ts -> m_map_re p = pr true ts.
Proof. intros H. destruct (plex_sound _ p ts H) as [A B]. rewrite <- B at 1. apply map_re_exact. exact A. Qed.
