(* C05 (soundness half): whatever the parser accepts is well-typed in the sense of Spec/Types.v (function
   well-typedness, only singular queries / literals / value functions compared, logical operands logical) and all its
   index and slice integers lie in the environment's range. *)
From JP Require Import Base.Json Model.Tokens Model.Ast Model.Parse Spec.Types Proofs.ParseInv.

Section Typed.
Variable cfg : envcfg.
Notation rg := (reg cfg).
Notation lo := (min_idx cfg).
Notation hi := (max_idx cfg).

(* well-typed at some declared type *)
Definition wtE (e : expr) : bool := wt_expr rg TValue e || wt_expr rg TLogical e || wt_expr rg TNodes e.
Definition Pe (e : expr * Z) : Prop := wtE (fst e) = true /\ ir_expr lo hi (fst e) = true.
Definition Psel (s : sel) : Prop := wt_sel rg s = true /\ ir_sel lo hi s = true.
Definition Pss (ss : list sel) : Prop := Forall Psel ss.
Definition Pseg (g : seg) : Prop := wt_seg rg g = true /\ ir_seg lo hi g = true.
Definition Pq (q : list seg) : Prop := Forall Pseg q.

Definition gt {A} (PA : A -> Prop) (r : pres A) : Prop := match r with POk a _ => PA a | _ => True end.
Lemma gt_bind {A B} (PA : A -> Prop) (PB : B -> Prop) (r : pres A) (f : A -> stream -> pres B) :
  gt PA r -> (forall a s, PA a -> gt PB (f a s)) -> gt PB (pbind r f).
Proof. destruct r; cbn [gt pbind]; intros H Hf; auto. Qed.

(* --- the judgement, unfolded one level ---------------------------------------------------------------------- *)
Fixpoint wt_segs (q : list seg) : bool := match q with [] => true | sg :: q' => wt_seg rg sg && wt_segs q' end.
Fixpoint wt_sels (ss : list sel) : bool := match ss with [] => true | s :: ss' => wt_sel rg s && wt_sels ss' end.
Fixpoint wt_args (tys : list ty3) (args : list expr) {struct args} : bool :=
  match args with
  | [] => match tys with [] => true | _ => false end
  | a :: args' => match tys with [] => false | t :: tys' => wt_expr rg t a && wt_args tys' args' end
  end.
Lemma wt_query_expr want q : wt_expr rg want (ERel q) = wt_segs q && match want with TValue => singular q | _ => true end.
Proof. reflexivity. Qed.
Lemma wt_query_abs want q : wt_expr rg want (EAbs q) = wt_segs q && match want with TValue => singular q | _ => true end.
Proof. reflexivity. Qed.
Lemma wt_call want f args : wt_expr rg want (ECall f args) =
  match find_assoc f rg with None => false | Some d => ret_ok want (f_ret d) && wt_args (f_args d) args end.
Proof. reflexivity. Qed.
Lemma wt_seg_sels g : wt_seg rg g = wt_sels (match g with Child ss | Desc ss => ss end).
Proof. destruct g; reflexivity. Qed.

Fixpoint ir_segs (q : list seg) : bool := match q with [] => true | g :: q' => ir_seg lo hi g && ir_segs q' end.
Fixpoint ir_sels (l : list sel) : bool := match l with [] => true | s :: l' => ir_sel lo hi s && ir_sels l' end.
Fixpoint ir_args (l : list expr) : bool := match l with [] => true | a :: l' => ir_expr lo hi a && ir_args l' end.
Lemma ir_rel q : ir_expr lo hi (ERel q) = ir_segs q.
Proof. reflexivity. Qed.
Lemma ir_abs q : ir_expr lo hi (EAbs q) = ir_segs q.
Proof. reflexivity. Qed.
Lemma ir_call f args : ir_expr lo hi (ECall f args) = ir_args args.
Proof. reflexivity. Qed.
Lemma ir_seg_sels g : ir_seg lo hi g = ir_sels (match g with Child ss | Desc ss => ss end).
Proof. destruct g; reflexivity. Qed.

Lemma Pq_segs q : Pq q -> wt_segs q = true /\ ir_segs q = true.
Proof. induction 1 as [|g q [A B] _ [IH1 IH2]]; [split; reflexivity|]. cbn [wt_segs ir_segs]. rewrite A, B, IH1, IH2. split; reflexivity. Qed.
Lemma Pss_sels ss : Pss ss -> wt_sels ss = true /\ ir_sels ss = true.
Proof. induction 1 as [|s ss [A B] _ [IH1 IH2]]; [split; reflexivity|]. cbn [wt_sels ir_sels]. rewrite A, B, IH1, IH2. split; reflexivity. Qed.
Lemma Pseg_of_sels (mk : list sel -> seg) ss : (mk = Child \/ mk = Desc) -> Pss ss -> Pseg (mk ss).
Proof. intros Hm H. destruct (Pss_sels ss H) as [A B]. split; [rewrite wt_seg_sels | rewrite ir_seg_sels]; destruct Hm as [-> | ->]; assumption. Qed.

(* --- what the parser's own checks establish ------------------------------------------------------------------------- *)
Lemma wtE_query q : wt_segs q = true -> wtE (ERel q) = true /\ wtE (EAbs q) = true.
Proof. intros H. unfold wtE. rewrite !wt_query_expr, !wt_query_abs, H. cbn [andb]. split; rewrite !orb_true_r; reflexivity. Qed.

Lemma logical_of_wtE e : wtE e = true -> is_literal e = false -> value_function cfg e = false -> wt_expr rg TLogical e = true.
Proof.
  unfold wtE. intros H Hl Hv. destruct e as [v|q|q|f args|a|a b|a b|o a b]; try discriminate.
  - rewrite !wt_query_expr in *. destruct (wt_segs q); [reflexivity | cbn in H; discriminate].
  - rewrite !wt_query_abs in *. destruct (wt_segs q); [reflexivity | cbn in H; discriminate].
  - rewrite !wt_call in *. unfold value_function, function_return_type, opt_ty_is in Hv. destruct (find_assoc f rg) as [d|]; [|cbn in H; discriminate].
    destruct (wt_args (f_args d) args); [|rewrite !andb_false_r in H; discriminate]. rewrite andb_true_r. destruct (f_ret d); try reflexivity. discriminate.
  - cbn [wt_expr is_logical andb orb] in *. rewrite ?orb_false_r in H. exact H.
  - cbn [wt_expr is_logical andb orb] in *. rewrite ?orb_false_r in H. exact H.
  - cbn [wt_expr is_logical andb orb] in *. rewrite ?orb_false_r in H. exact H.
  - cbn [wt_expr is_logical andb orb] in *. rewrite ?orb_false_r in H. exact H.
Qed.

Lemma m_singular_eq q : m_singular q = singular q.
Proof. unfold m_singular, singular. induction q as [|g q IH]; [reflexivity|]. cbn [forallb]. rewrite IH. f_equal. Qed.

Lemma value_of_wtE e : wtE e = true -> non_comparable cfg e = None -> wt_expr rg TValue e = true.
Proof.
  unfold wtE, non_comparable. intros H Hn. destruct e as [v|q|q|f args|a|a b|a b|o a b]; cbn [is_compound] in Hn; try discriminate.
  - cbn [wt_expr] in *. destruct (negb (is_container v)); [reflexivity | discriminate].
  - cbn [is_filter_query query_of andb] in Hn. rewrite !wt_query_expr in *. destruct (m_singular q) eqn:Es; [|discriminate].
    rewrite m_singular_eq in Es. rewrite Es in *. destruct (wt_segs q); [reflexivity | cbn in H; discriminate].
  - cbn [is_filter_query query_of andb] in Hn. rewrite !wt_query_abs in *. destruct (m_singular q) eqn:Es; [|discriminate].
    rewrite m_singular_eq in Es. rewrite Es in *. destruct (wt_segs q); [reflexivity | cbn in H; discriminate].
  - cbn [is_filter_query andb] in Hn. rewrite !wt_call in *. unfold function_return_type in Hn. destruct (find_assoc f rg) as [d|]; [|cbn in H; discriminate].
    destruct (wt_args (f_args d) args); [|rewrite !andb_false_r in H; discriminate]. rewrite andb_true_r. destruct (f_ret d); try reflexivity; discriminate.
Qed.

Lemma wtE_segs_rel q : wtE (ERel q) = true -> wt_segs q = true.
Proof. unfold wtE. rewrite !wt_query_expr. destruct (wt_segs q); [reflexivity | cbn; discriminate]. Qed.
Lemma wtE_segs_abs q : wtE (EAbs q) = true -> wt_segs q = true.
Proof. unfold wtE. rewrite !wt_query_abs. destruct (wt_segs q); [reflexivity | cbn; discriminate]. Qed.
Lemma wtE_call f args : wtE (ECall f args) = true -> exists d, find_assoc f rg = Some d /\ wt_args (f_args d) args = true.
Proof.
  unfold wtE. rewrite !wt_call. destruct (find_assoc f rg) as [d|]; [|cbn; discriminate]. intros H. exists d. split; [reflexivity|].
  destruct (wt_args (f_args d) args); [reflexivity | rewrite !andb_false_r in H; discriminate].
Qed.

Lemma arg_ok t a : wtE a = true ->
  (match t with
   | TValue => is_literal a || (is_filter_query a && m_singular (query_of a)) || opt_ty_is (function_return_type rg a) TValue
   | TLogical => is_filter_query a || is_compound a || opt_ty_is (function_return_type rg a) TLogical || opt_ty_is (function_return_type rg a) TNodes
   | TNodes => is_filter_query a || opt_ty_is (function_return_type rg a) TNodes
   end) = true -> wt_expr rg t a = true.
Proof.
  intros Hw Hc. destruct a as [v|q|q|f args|x|x y|x y|o x y]; cbn [is_literal is_filter_query is_compound query_of function_return_type opt_ty_is orb andb] in Hc.
  - destruct t; try discriminate. unfold wtE in Hw. cbn [wt_expr] in *. destruct (negb (is_container v)); [reflexivity | discriminate].
  - pose proof (wtE_segs_rel q Hw) as Hs. rewrite wt_query_expr, Hs. destruct t; try reflexivity. rewrite orb_false_r in Hc. rewrite <- m_singular_eq. exact Hc.
  - pose proof (wtE_segs_abs q Hw) as Hs. rewrite wt_query_abs, Hs. destruct t; try reflexivity. rewrite orb_false_r in Hc. rewrite <- m_singular_eq. exact Hc.
  - destruct (wtE_call f args Hw) as (d & Ed & Ha). rewrite wt_call, Ed, Ha, andb_true_r. rewrite Ed in Hc. cbn [opt_ty_is] in Hc.
    destruct t, (f_ret d); cbn in Hc; try discriminate; reflexivity.
  - destruct t; try discriminate. unfold wtE in Hw. cbn [wt_expr is_logical andb orb] in Hw. rewrite ?orb_false_r in Hw. exact Hw.
  - destruct t; try discriminate. unfold wtE in Hw. cbn [wt_expr is_logical andb orb] in Hw. rewrite ?orb_false_r in Hw. exact Hw.
  - destruct t; try discriminate. unfold wtE in Hw. cbn [wt_expr is_logical andb orb] in Hw. rewrite ?orb_false_r in Hw. exact Hw.
  - destruct t; try discriminate. unfold wtE in Hw. cbn [wt_expr is_logical andb orb] in Hw. rewrite ?orb_false_r in Hw. exact Hw.
Qed.

Lemma check_args_wt : forall tys args, length args = length tys -> Forall (fun a => wtE a = true) args ->
  check_args cfg tys args = true -> wt_args tys args = true.
Proof.
  induction tys as [|t tys IH]; intros args Hl Hw Hc; destruct args as [|a args]; try discriminate; [reflexivity|].
  cbn [length] in Hl. injection Hl as Hl. inversion Hw; subst. cbn [check_args] in Hc. apply andb_true_iff in Hc as [Hc1 Hc2].
  cbn [wt_args]. rewrite (arg_ok t a H1 Hc1), (IH args Hl H2 Hc2). reflexivity.
Qed.

Lemma call_wtE f d args : find_assoc f rg = Some d -> wt_args (f_args d) args = true -> wtE (ECall f args) = true.
Proof. intros Ef Ha. unfold wtE. rewrite !wt_call, Ef, Ha, !andb_true_r. destruct (f_ret d); reflexivity. Qed.

(* --- the non-recursive pieces --------------------------------------------------------------------------------------- *)
Lemma gt_literal s : gt Pe (p_literal s).
Proof.
  unfold p_literal. cbv zeta.
  repeat match goal with
  | |- gt _ (match ?x with _ => _ end) => destruct x
  | |- gt _ (if ?x then _ else _) => destruct x
  end; unfold err_cur; cbn [gt]; try exact I; unfold Pe; split; reflexivity.
Qed.

Lemma gt_slice s : gt Psel (p_slice cfg s).
Proof.
  unfold p_slice.
  destruct (maybe_index_cases s) as [E | [E | E]]; rewrite E; cbn [pbind]; try exact I; cbv zeta beta iota.
  all: repeat match goal with
       | |- context [maybe_index ?x] =>
           let E2 := fresh "E2" in destruct (maybe_index_cases x) as [E2 | [E2 | E2]]; rewrite E2; cbn [pbind]; unfold err_cur; cbv beta iota zeta
       | |- gt _ (if ?b then _ else _) => destruct b eqn:?
       | |- context [if ?b then (_, _, _) else _] => destruct b
       | |- context [if ?b then (_, _) else _] => destruct b
       end; cbn [pbind gt]; try exact I.
  all: repeat match goal with |- gt _ (if ?b then _ else _) => destruct b eqn:? end; cbn [gt]; try exact I.
  all: unfold Psel; split; [reflexivity | cbn [ir_sel]; assumption].
Qed.

Definition nonlit (t : ttype) : bool := match t with T_LPAREN | T_ROOT | T_CURRENT | T_FUNCTION | T_NOT => true | _ => false end.
Definition PeS (s : stream) (e : expr * Z) : Prop := Pe e /\ (nonlit (cty s) = true -> is_literal (fst e) = false).
Definition PeL (lhs e : expr * Z) : Prop := Pe e /\ (is_literal (fst lhs) = false -> is_literal (fst e) = false).
Definition PeC (e : expr * Z) : Prop := Pe e /\ is_literal (fst e) = false.
Definition PeG (e : expr * Z) : Prop := Pe e /\ is_literal (fst e) = false /\ value_function cfg (fst e) = false.
Definition PA (l : list (expr * bool)) : Prop := Forall (fun eg => wtE (fst eg) = true /\ ir_expr lo hi (fst eg) = true) l.

Definition QT (f : nat) : Prop :=
  (forall inf s, gt Pq (p_query cfg f inf s)) /\
  (forall s, gt Pss (p_selectors cfg f s)) /\
  (forall s, gt Pss (p_bracket_loop cfg f s)) /\
  (forall s, gt Psel (p_filter_selector cfg f s)) /\
  (forall prec s, gt (PeS s) (p_fexpr cfg f prec s)) /\
  (forall prec lhs s, Pe lhs -> gt (PeL lhs) (p_fexpr_loop cfg f prec lhs s)) /\
  (forall s, gt (PeS s) (p_primary cfg f s)) /\
  (forall lhs s, Pe lhs -> gt PeC (p_infix cfg f lhs s)) /\
  (forall s, gt PeG (p_grouped cfg f s)) /\
  (forall e s, Pe e -> gt Pe (p_grouped_loop cfg f e s)) /\
  (forall s, gt PeC (p_prefix cfg f s)) /\
  (forall s, gt PeC (p_function cfg f s)) /\
  (forall s, gt PA (p_args_loop cfg f s)) /\
  (forall e s, Pe e -> gt Pe (p_arg_infix_loop cfg f e s)).

Lemma PA_wt l : PA l -> Forall (fun a => wtE a = true) (map fst l).
Proof. induction 1 as [|x l [A _] _ IH]; cbn [map]; constructor; assumption. Qed.
Lemma PA_ir l : PA l -> ir_args (map fst l) = true.
Proof. induction 1 as [|x l [_ B] _ IH]; [reflexivity|]. cbn [map ir_args]. rewrite B, IH. reflexivity. Qed.

Lemma prec_lt_prefix t b : binary_operator t = Some b -> (precedence_of t <? PRECEDENCE_PREFIX) = true.
Proof. destruct t; cbn; intros H; try discriminate; reflexivity. Qed.

Lemma in_range_zr i : in_range cfg i = zr lo hi i. Proof. reflexivity. Qed.

Theorem QT_all : forall f, QT f.
Proof.
  induction f as [|f IH]; [repeat split; intros; exact I|].
  destruct IH as (IHq & IHsel & IHbr & IHfs & IHfe & IHfl & IHpr & IHin & IHgr & IHgl & IHpf & IHfn & IHal & IHai).
  repeat split.
  - (* p_query *) intros inf s. rewrite p_query_S.
    destruct (is_ty T_DOUBLE_DOT s).
    + eapply gt_bind; [apply IHsel|]. intros ss s1 Hss. eapply gt_bind; [apply IHq|]. intros q s2 Hq. cbn [gt].
      constructor; [apply (Pseg_of_sels Desc); auto | exact Hq].
    + destruct (is_ty T_LBRACKET s || is_ty T_PROPERTY s || is_ty T_WILD s); [|cbn [gt]; constructor].
      eapply gt_bind; [apply IHsel|]. intros ss s1 Hss. eapply gt_bind; [apply IHq|]. intros q s2 Hq. cbn [gt].
      constructor; [apply (Pseg_of_sels Child); auto | exact Hq].
  - (* p_selectors *) intros s. rewrite p_selectors_S. destruct (cty s); cbn [gt]; try (constructor; fail); try (constructor; [split; reflexivity | constructor]).
    cbv zeta. eapply gt_bind; [apply IHbr|]. intros ss s1 Hss. destruct ss; cbn [gt]; [exact I | exact Hss].
  - (* p_bracket_loop *) intros s. rewrite p_bracket_loop_S. destruct (is_ty T_RBRACKET s); [cbn [gt]; constructor|].
    eapply (gt_bind Psel).
    + destruct (cty s); unfold err_cur; cbn [gt]; try exact I.
      * apply gt_slice.
      * apply IHfs.
      * destruct (ttype_eqb (peek_ty s) T_COLON); [apply gt_slice|]. cbv zeta.
        match goal with |- gt _ (if ?b then _ else _) => destruct b end; [exact I|].
        match goal with |- gt _ (if ?b then _ else _) => destruct b eqn:Er end; cbn [gt]; [|exact I]. split; [reflexivity | cbn [ir_sel]; rewrite <- in_range_zr; exact Er].
      * split; reflexivity.
      * destruct (decode_string_literal (cur s)); cbn [gt]; try exact I. split; reflexivity.
      * destruct (decode_string_literal (cur s)); cbn [gt]; try exact I. split; reflexivity.
    + intros x s1 Hx. destruct (ttype_eqb (peek_ty s1) T_EOF); [exact I|]. cbv zeta.
      eapply (gt_bind (fun _ : unit => True)).
      * repeat match goal with |- gt _ (if ?b then _ else _) => destruct b end; unfold err_peek; cbn [gt]; exact I.
      * intros _ s2 _. eapply gt_bind; [apply IHbr|]. intros xs s3 Hxs. cbn [gt]. constructor; assumption.
  - (* p_filter_selector *) intros s. rewrite p_filter_selector_S. cbv zeta. eapply gt_bind; [apply IHfe|]. intros [e etok] s1 [[Hw Hi] _].
    cbn [fst] in *. destruct (value_function cfg e) eqn:Ev; [exact I|]. destruct (is_literal e) eqn:El; [exact I|]. cbn [gt].
    split; [cbn [wt_sel]; apply logical_of_wtE; assumption | cbn [ir_sel]; exact Hi].
  - (* p_fexpr *) intros prec s. rewrite p_fexpr_S. destruct (negb (in_token_map (cty s))); [exact I|].
    pose proof (IHpr s) as G. destruct (p_primary cfg f s) as [lhs s1|c off|x s1|]; cbn [gt] in G; try exact I.
    + destruct G as [Hl Hn]. pose proof (IHfl prec lhs s1 Hl) as G2. destruct (p_fexpr_loop cfg f prec lhs s1); cbn [gt] in *; try exact I.
      destruct G2 as [A B]. split; [exact A | intros Hnl; apply B; apply Hn; exact Hnl].
    + destruct x; exact I.
  - (* p_fexpr_loop *) intros prec lhs s Hl. rewrite p_fexpr_loop_S. cbv zeta.
    match goal with |- gt _ (if ?b then _ else _) => destruct b end; [cbn [gt]; split; auto|]. destruct (binary_operator (peek_ty s)); [|cbn [gt]; split; auto].
    eapply gt_bind; [apply IHin; exact Hl|]. intros lhs' s1 [Hl' Hnl'].
    pose proof (IHfl prec lhs' s1 Hl') as G. destruct (p_fexpr_loop cfg f prec lhs' s1); cbn [gt] in *; try exact I.
    destruct G as [A B]. split; [exact A | intros _; apply B; exact Hnl'].
  - (* p_primary *) intros s. rewrite p_primary_S. unfold PeS. destruct (cty s) eqn:Ec; cbn [nonlit];
      try (pose proof (gt_literal s) as G; destruct (p_literal s); cbn [gt] in *; try exact I; split; [exact G | discriminate]).
    + (* ROOT *) cbv zeta. eapply gt_bind; [apply IHq|]. intros q s1 Hq. cbn [gt]. destruct (Pq_segs q Hq) as [A B].
      split; [split; [apply (wtE_query q A) | exact B] | reflexivity].
    + (* CURRENT *) cbv zeta. eapply gt_bind; [apply IHq|]. intros q s1 Hq. cbn [gt]. destruct (Pq_segs q Hq) as [A B].
      split; [split; [apply (wtE_query q A) | exact B] | reflexivity].
    + (* FUNCTION *) pose proof (IHfn s) as G. destruct (p_function cfg f s); cbn [gt] in *; try exact I. destruct G as [A B]. split; [exact A | intros _; exact B].
    + (* LPAREN *) pose proof (IHgr s) as G. destruct (p_grouped cfg f s); cbn [gt] in *; try exact I. destruct G as (A & B & _). split; [exact A | intros _; exact B].
    + (* NOT *) pose proof (IHpf s) as G. destruct (p_prefix cfg f s); cbn [gt] in *; try exact I. destruct G as [A B]. split; [exact A | intros _; exact B].
  - (* p_infix *) intros lhs s [Hlw Hli]. rewrite p_infix_S. cbv zeta. eapply gt_bind; [apply IHfe|]. intros rhs s1 [[Hrw Hri] _].
    destruct (binary_operator (ty (cur s))) as [[| |o]|]; try exact I.
    + (* && *) destruct (is_literal (fst lhs)) eqn:E1; [exact I|]. destruct (is_literal (fst rhs)) eqn:E2; [exact I|].
      destruct (value_function cfg (fst lhs)) eqn:E3; [exact I|]. destruct (value_function cfg (fst rhs)) eqn:E4; [exact I|]. cbn [gt].
      split; [split|reflexivity]; cbn [fst].
      * unfold wtE. cbn [wt_expr is_logical andb]. rewrite (logical_of_wtE _ Hlw E1 E3), (logical_of_wtE _ Hrw E2 E4). rewrite orb_true_r. reflexivity.
      * cbn [ir_expr]. rewrite Hli, Hri. reflexivity.
    + (* || *) destruct (is_literal (fst lhs)) eqn:E1; [exact I|]. destruct (is_literal (fst rhs)) eqn:E2; [exact I|].
      destruct (value_function cfg (fst lhs)) eqn:E3; [exact I|]. destruct (value_function cfg (fst rhs)) eqn:E4; [exact I|]. cbn [gt].
      split; [split|reflexivity]; cbn [fst].
      * unfold wtE. cbn [wt_expr is_logical andb]. rewrite (logical_of_wtE _ Hlw E1 E3), (logical_of_wtE _ Hrw E2 E4). rewrite orb_true_r. reflexivity.
      * cbn [ir_expr]. rewrite Hli, Hri. reflexivity.
    + (* comparison *) destruct (is_ty T_LPAREN (adv s)); [exact I|].
      destruct (non_comparable cfg (fst lhs)) eqn:N1; [exact I|]. destruct (non_comparable cfg (fst rhs)) eqn:N2; [exact I|]. cbn [gt].
      split; [split|reflexivity]; cbn [fst].
      * unfold wtE. cbn [wt_expr is_logical andb]. rewrite (value_of_wtE _ Hlw N1), (value_of_wtE _ Hrw N2). rewrite orb_true_r. reflexivity.
      * cbn [ir_expr]. rewrite Hli, Hri. reflexivity.
  - (* p_grouped *) intros s. rewrite p_grouped_S. eapply gt_bind; [apply IHfe|]. intros e s1 [He _]. eapply gt_bind; [apply IHgl; exact He|]. intros e2 s2 He2.
    destruct (negb (is_ty T_RPAREN s2)); [exact I|]. destruct (is_literal (fst e2)) eqn:E1; [exact I|]. destruct (value_function cfg (fst e2)) eqn:E2; [exact I|].
    destruct (is_comparison_tok (peek_ty s2)); [exact I|]. cbn [gt]. repeat split; try assumption; apply He2.
  - (* p_grouped_loop *) intros e s He. rewrite p_grouped_loop_S. destruct (is_ty T_RPAREN s); [exact He|]. destruct (is_ty T_EOF s); [exact I|].
    eapply gt_bind; [apply IHin; exact He|]. intros e' s1 [He' _]. apply IHgl. exact He'.
  - (* p_prefix *) intros s. rewrite p_prefix_S. cbv zeta.
    assert (Hgo : nonlit (cty (adv s)) = true -> gt PeC
      (dop rhs, s0 <- p_fexpr cfg f PRECEDENCE_PREFIX (adv s); if value_function cfg (fst rhs) then PErr EType (snd rhs) else POk (ENot (fst rhs), tidx (cur s)) s0)).
    { intros Hnl. eapply gt_bind; [apply IHfe|]. intros rhs s1 [[Hw Hi] Hn]. specialize (Hn Hnl).
      destruct (value_function cfg (fst rhs)) eqn:Ev; [exact I|]. cbn [gt]. split; [split|reflexivity]; cbn [fst].
      - unfold wtE. cbn [wt_expr is_logical andb]. rewrite (logical_of_wtE _ Hw Hn Ev). rewrite orb_true_r. reflexivity.
      - cbn [ir_expr]. exact Hi. }
    destruct (cty (adv s)) eqn:Ec; try exact I; apply Hgo; reflexivity.
  - (* p_function *) intros s. rewrite p_function_S. cbv zeta. eapply gt_bind; [apply IHal|]. intros argsg s1 Ha.
    destruct (find_assoc (tval (cur s)) rg) as [d|] eqn:Ef; [|exact I]. match goal with |- gt _ (if ?b then _ else _) => destruct b eqn:El end; [exact I|].
    destruct (check_args cfg (f_args d) (map fst argsg)) eqn:Ec; [|exact I]. match goal with |- gt _ (if ?b then _ else _) => destruct b end; [|exact I]. cbn [gt].
    apply negb_false_iff, Nat.eqb_eq in El.
    pose proof (PA_wt _ Ha) as Hw. pose proof (PA_ir _ Ha) as Hi.
    split; [split|reflexivity]; cbn [fst].
    + apply (call_wtE _ d); [exact Ef | apply check_args_wt; assumption].
    + rewrite ir_call. exact Hi.
  - (* p_args_loop *) intros s. rewrite p_args_loop_S. destruct (is_ty T_RPAREN s); [cbn [gt]; constructor|].
    destruct (negb (in_function_argument_map (cty s))); [exact I|]. cbv zeta.
    pose proof (IHpr s) as G. destruct (p_primary cfg f s) as [e s1|c off|x s1|]; cbn [pbind gt] in *; try exact I. destruct G as [He _].
    eapply gt_bind; [apply IHai; exact He|]. intros e2 s2 [Hw Hi].
    eapply (gt_bind (fun _ : unit => True)).
    + repeat match goal with |- gt _ (if ?b then _ else _) => destruct b end; unfold err_peek; cbn [gt]; exact I.
    + intros _ s3 _. eapply gt_bind; [apply IHal|]. intros es s4 Hes. cbn [gt]. constructor; [cbn [fst]; split; assumption | exact Hes].
  - (* p_arg_infix_loop *) intros e s He. rewrite p_arg_infix_loop_S. destruct (binary_operator (peek_ty s)); [|exact He].
    eapply gt_bind; [apply IHin; exact He|]. intros e' s1 [He' _]. apply IHai. exact He'.
Qed.

Theorem parse_typed toks q s : p_parse cfg toks = POk q s -> wt_query rg q = true /\ ints_in_range lo hi q = true.
Proof.
  unfold p_parse. cbv zeta. destruct (negb (is_ty T_ROOT (stream_init toks))); [unfold err_cur; discriminate|].
  destruct (QT_all (parse_fuel toks)) as (Hq & _). pose proof (Hq false (adv (stream_init toks))) as G.
  destruct (p_query cfg (parse_fuel toks) false (adv (stream_init toks))) as [q0 s0| | |]; cbn [pbind gt] in *; try discriminate.
  destruct (negb (is_ty T_EOF s0)); [unfold err_cur; discriminate|]. intros E. inversion E; subst.
  unfold wt_query, ints_in_range. split; apply forallb_forall; intros g Hg; unfold Pq in G; rewrite Forall_forall in G; destruct (G g Hg); assumption.
Qed.
End Typed.

From JP Require Import Model.Lex Model.Api.
Theorem compile_typed cfg text q : m_compile cfg text = Ok q ->
  wt_query (reg cfg) q = true /\ ints_in_range (min_idx cfg) (max_idx cfg) q = true.
Proof.
  unfold m_compile. destruct (m_tokenize text) as [toks| | |]; cbn [bind]; try discriminate.
  destruct (p_parse cfg toks) as [q0 s| | |] eqn:Ep; try discriminate. intros E. inversion E; subst. exact (parse_typed cfg toks q s Ep).
Qed.
