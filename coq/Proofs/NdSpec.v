(* C17, specification side: the "frontier" description of the orders RFC 9535 allows for a descendant segment
   (2.5.2.2 with 2.1.2): the available nodes are kept in queues - the elements of an array form one queue, in index
   order; each member of an object is a queue of its own - and a step takes the head of any queue and makes the
   children of the taken node available.  Every order so produced satisfies Spec/Nondet.valid_order. *)
From JP Require Import Base.Json Spec.Sem Spec.Nondet.
From Coq Require Import Permutation.

Definition subtree (c : node) : list node := descendants (fst c) (snd c).

(* --- descendants, one level at a time ---------------------------------------------------------------- *)
Lemma descendants_unfold loc v :
  descendants loc v = (loc, v) :: flat_map subtree (children (loc, v)).
Proof.
  destruct v as [| | | |l|m]; try reflexivity; cbn [descendants children snd fst]; f_equal.
  - generalize 0 as i. induction l as [|x l IH]; intros i; [reflexivity|]. cbn [enum_from map flat_map fst snd].
    unfold subtree at 1. cbn [fst snd]. f_equal. apply IH.
  - induction m as [|[k x] m IH]; [reflexivity|]. cbn [map flat_map fst snd]. unfold subtree at 1. cbn [fst snd]. f_equal. exact IH.
Qed.

Lemma concat_singletons {A} (l : list A) : concat (map (fun c => [c]) l) = l.
Proof. induction l as [|x l IH]; [reflexivity|]. cbn [map concat app]. f_equal. exact IH. Qed.
Lemma children_scalar n : is_container (snd n) = false -> children n = [].
Proof. unfold children. destruct (snd n); try reflexivity; discriminate. Qed.
Lemma concat_queues_of n : concat (queues_of n) = children n.
Proof.
  unfold queues_of. destruct (snd n) eqn:E; try (rewrite children_scalar by (rewrite E; reflexivity); reflexivity).
  - destruct (children n); cbn [concat]; [reflexivity | rewrite app_nil_r; reflexivity].
  - apply concat_singletons.
Qed.

(* --- the frontier relation --------------------------------------------------------------------------------- *)
Definition step (qs : list (list node)) (x : node) (qs' : list (list node)) : Prop :=
  exists q r, Permutation qs ((x :: q) :: r) /\ qs' = q :: r.
Fixpoint reach (qs : list (list node)) (o : list node) : Prop :=
  match o with
  | [] => concat qs = []
  | x :: rest => exists qs', step qs x qs' /\ reach (qs' ++ queues_of x) rest
  end.

Lemma Permutation_concat {A} (l l' : list (list A)) : Permutation l l' -> Permutation (concat l) (concat l').
Proof.
  induction 1; cbn [concat]; [constructor | apply Permutation_app_head; assumption | | eapply perm_trans; eassumption].
  rewrite !app_assoc. apply Permutation_app_tail. apply Permutation_app_comm.
Qed.

(* V1: exactly the nodes of the available subtrees, each once *)
Lemma reach_nodes : forall o qs, reach qs o -> Permutation o (flat_map subtree (concat qs)).
Proof.
  induction o as [|x rest IH]; intros qs H; cbn [reach] in H.
  - rewrite H. constructor.
  - destruct H as (qs' & (q & r & Hp & ->) & Hr). apply IH in Hr.
    apply Permutation_concat in Hp. cbn [concat] in Hp.
    eapply perm_trans; [| apply Permutation_flat_map; apply Permutation_sym; exact Hp].
    cbn [app flat_map]. unfold subtree at 1. destruct x as [lx vx]. cbn [fst snd]. rewrite descendants_unfold. cbn [app]. apply perm_skip.
    eapply perm_trans; [exact Hr|]. rewrite concat_app, concat_queues_of. cbn [concat].
    rewrite (flat_map_app subtree (q ++ concat r) (children (lx, vx))). apply Permutation_app_comm.
Qed.

(* --- V2: every node after its parent ------------------------------------------------------------------------ *)
Lemma children_loc n c : In c (children n) -> exists k, fst c = fst n ++ [k].
Proof.
  unfold children. destruct (snd n); try contradiction; intros H; apply in_map_iff in H as [x [<- _]]; cbn [fst]; eauto.
Qed.
Lemma step_in qs x qs' : step qs x qs' -> In x (concat qs) /\ (forall c, In c (concat qs') -> In c (concat qs)).
Proof.
  intros (q & r & Hp & ->). apply Permutation_concat in Hp. cbn [concat] in Hp. split.
  - eapply Permutation_in; [apply Permutation_sym; exact Hp | left; reflexivity].
  - intros c Hc. eapply Permutation_in; [apply Permutation_sym; exact Hp | right; exact Hc].
Qed.

Lemma reach_parent : forall o qs (S : list key -> Prop),
  (forall c, In c (concat qs) -> exists p k, fst c = p ++ [k] /\ S p) -> reach qs o ->
  forall pre x suf, o = pre ++ x :: suf -> exists p k, fst x = p ++ [k] /\ (S p \/ In p (map fst pre)).
Proof.
  induction o as [|x0 rest IH]; intros qs S HS H pre x suf E; [destruct pre; discriminate|].
  cbn [reach] in H. destruct H as (qs' & Hst & Hr). destruct (step_in _ _ _ Hst) as [Hx0 Hsub].
  destruct pre as [|y pre']; cbn [app] in E; inversion E; subst.
  - destruct (HS x Hx0) as (p & k & E1 & E2). exists p, k. split; [exact E1 | left; exact E2].
  - destruct (IH (qs' ++ queues_of y) (fun l => S l \/ l = fst y)) with (pre := pre') (x := x) (suf := suf) as (p & k & E1 & E2); [ | exact Hr | reflexivity | ].
    + intros c Hc. rewrite concat_app, concat_queues_of in Hc. apply in_app_or in Hc as [Hc | Hc].
      * destruct (HS c (Hsub c Hc)) as (p & k & E1 & E2). exists p, k. split; [exact E1 | left; exact E2].
      * destruct (children_loc y c Hc) as [k Ek]. exists (fst y), k. split; [exact Ek | right; reflexivity].
    + exists p, k. split; [exact E1|]. cbn [map In]. destruct E2 as [[E2 | E2] | E2]; auto.
Qed.

(* --- V3: the elements of an array in index order --------------------------------------------------------------- *)
Definition prev_ok (S : list key -> Prop) (q : list node) : Prop :=
  forall pre x suf, q = pre ++ x :: suf -> forall p i, fst x = p ++ [KIdx i] -> 0 < i ->
    match rev pre with y :: _ => fst y = p ++ [KIdx (i - 1)] | [] => S (p ++ [KIdx (i - 1)]) end.

Lemma prev_ok_mono (S S' : list key -> Prop) q : (forall l, S l -> S' l) -> prev_ok S q -> prev_ok S' q.
Proof. intros Hm H pre x suf E p i E1 Hi. specialize (H pre x suf E p i E1 Hi). destruct (rev pre); auto. Qed.
Lemma prev_ok_tail (S : list key -> Prop) x0 q : prev_ok S (x0 :: q) -> prev_ok (fun l => S l \/ l = fst x0) q.
Proof.
  intros H pre x suf E p i E1 Hi. specialize (H (x0 :: pre) x suf ltac:(rewrite E; reflexivity) p i E1 Hi).
  cbn [rev] in H. destruct (rev pre) as [|y r]; cbn [app] in H; [right; symmetry; exact H | exact H].
Qed.

Lemma enum_from_split {A} : forall (l : list A) j pre (x : Z * A) suf, enum_from j l = pre ++ x :: suf ->
  fst x = j + zlen pre /\ match rev pre with y :: _ => fst y = fst x - 1 | [] => True end.
Proof.
  induction l as [|a l IH]; intros j pre x suf E; [destruct pre; discriminate|]. cbn [enum_from] in E.
  destruct pre as [|y pre']; cbn [app] in E; inversion E; subst.
  - cbn [fst rev]. split; [unfold zlen; cbn [length]; lia | exact I].
  - destruct (IH (j + 1) pre' x suf H1) as [E1 E2]. split; [unfold zlen in *; cbn [length]; lia|].
    cbn [rev]. destruct (rev pre') as [|z r] eqn:Er; cbn [app].
    + apply (f_equal (@rev _)) in Er. rewrite rev_involutive in Er. cbn in Er. subst pre'. cbn [fst]. unfold zlen in E1. cbn [length] in E1. lia.
    + exact E2.
Qed.

Lemma queues_of_prev_ok (S : list key -> Prop) n : Forall (prev_ok S) (queues_of n).
Proof.
  unfold queues_of. destruct (snd n) eqn:Ev; try constructor.
  - destruct (children n) as [|c cs] eqn:Ec; constructor; [|constructor]. rewrite <- Ec. clear c cs Ec.
    unfold children. rewrite Ev. intros pre x suf E p i E1 Hi.
    apply map_eq_app in E as (l1 & l2 & El & E1' & E2'). destruct l2 as [|ie l2']; [discriminate|]. cbn [map] in E2'. inversion E2'; subst.
    cbn [fst] in E1. apply app_inj_tail in E1 as [-> Ek]. inversion Ek; subst i.
    destruct (enum_from_split l 0 l1 ie l2' El) as [A B]. rewrite <- map_rev. destruct (rev l1) as [|y r] eqn:Er; cbn [map].
    + (* first element: index 0 *) exfalso. apply (f_equal (@rev _)) in Er. rewrite rev_involutive in Er. cbn in Er. subst l1.
      unfold zlen in A. cbn [length] in A. lia.
    + cbn [fst]. rewrite B. reflexivity.
  - apply Forall_forall. intros q Hq. apply in_map_iff in Hq as [c [<- Hc]]. intros pre x suf E p i E1 Hi.
    destruct pre as [|y pre']; [|destruct pre'; discriminate]. cbn [app] in E. inversion E; subst x.
    unfold children in Hc. rewrite Ev in Hc. apply in_map_iff in Hc as [kv [<- _]]. cbn [fst] in E1. apply app_inj_tail in E1 as [_ Ek]. discriminate.
Qed.

Lemma reach_prev : forall o qs (S : list key -> Prop), Forall (prev_ok S) qs -> reach qs o ->
  forall pre x suf, o = pre ++ x :: suf -> forall p i, fst x = p ++ [KIdx i] -> 0 < i ->
    S (p ++ [KIdx (i - 1)]) \/ In (p ++ [KIdx (i - 1)]) (map fst pre).
Proof.
  induction o as [|x0 rest IH]; intros qs S HS H pre x suf E p i E1 Hi; [destruct pre; discriminate|].
  cbn [reach] in H. destruct H as (qs' & (q & r & Hp & ->) & Hr).
  pose proof (Permutation_Forall Hp HS) as HS'. inversion HS' as [|a b Hq0 Hr0]; subst.
  destruct pre as [|y pre']; cbn [app] in E; inversion E; subst.
  - left. exact (Hq0 [] x q eq_refl p i E1 Hi).
  - destruct (IH ((q :: r) ++ queues_of y) (fun l => S l \/ l = fst y)) with (pre := pre') (x := x) (suf := suf) (p := p) (i := i) as [[A | A] | A];
      try assumption; try reflexivity.
    + apply Forall_app. split; [constructor; [apply prev_ok_tail; exact Hq0 | eapply Forall_impl; [|exact Hr0]; intros a0 Ha; eapply prev_ok_mono; [|exact Ha]; auto] | apply queues_of_prev_ok].
    + left; exact A.
    + right. left. symmetry. exact A.
    + right. right. exact A.
Qed.

(* --- locations of a well-formed value are distinct -------------------------------------------------------------- *)
Lemma subtree_prefix : forall v l d, In d (descendants l v) -> exists q, fst d = l ++ q.
Proof.
  induction v using json_ind'; intros loc d Hd; rewrite descendants_unfold in Hd; destruct Hd as [<- | Hd];
    try (exists []; rewrite app_nil_r; reflexivity); try (cbn in Hd; contradiction).
  - apply in_flat_map in Hd as [c [Hc Hd]]. unfold children in Hc. cbn [snd fst] in Hc. apply in_map_iff in Hc as [[i x] [<- Hix]].
    assert (Hx : In x l). { clear -Hix. revert Hix. generalize 0. induction l as [|a l IH]; intros j H; [contradiction|]. cbn [enum_from In] in H. destruct H as [H | H]; [inversion H; left; reflexivity | right; eapply IH; exact H]. }
    rewrite Forall_forall in H. destruct (H x Hx _ _ Hd) as [q Eq]. cbn [fst snd] in Eq. exists (KIdx i :: q). rewrite Eq, <- app_assoc. reflexivity.
  - apply in_flat_map in Hd as [c [Hc Hd]]. unfold children in Hc. cbn [snd fst] in Hc. apply in_map_iff in Hc as [[k x] [<- Hkx]].
    rewrite Forall_forall in H. destruct (H (k, x) Hkx _ _ Hd) as [q Eq]. cbn [fst snd] in Eq. exists (KName k :: q). rewrite Eq, <- app_assoc. reflexivity.
Qed.

Lemma prefix_neq (l : list key) k q : l <> l ++ k :: q.
Proof. intros E. apply (f_equal (@length _)) in E. rewrite app_length in E. cbn [length] in E. lia. Qed.

Lemma NoDup_app_intro {A} (a b : list A) : NoDup a -> NoDup b -> (forall x, In x a -> In x b -> False) -> NoDup (a ++ b).
Proof.
  induction a as [|x a IH]; intros Ha Hb Hd; [exact Hb|]. inversion Ha; subst. cbn [app]. constructor.
  - intros Hin. apply in_app_or in Hin as [Hin | Hin]; [contradiction | apply (Hd x); [left; reflexivity | exact Hin]].
  - apply IH; try assumption. intros y Hy1 Hy2. apply (Hd y); [right; exact Hy1 | exact Hy2].
Qed.

Lemma existsb_str_false k (ks : list str) : existsb (str_eqb k) ks = false -> ~ In k ks.
Proof. intros H Hin. assert (existsb (str_eqb k) ks = true) by (apply existsb_exists; exists k; split; [exact Hin | apply str_eqb_refl]). congruence. Qed.

Theorem descendants_NoDup : forall v loc, wf_json v = true -> NoDup (map fst (descendants loc v)).
Proof.
  induction v using json_ind'; intros loc Hw; rewrite descendants_unfold; cbn [map fst]; try (constructor; [intros []|constructor]).
  - (* array *) cbn [wf_json] in Hw. constructor.
    + intros Hin. apply in_map_iff in Hin as [d [Ed Hd]]. apply in_flat_map in Hd as [c [Hc Hd]].
      destruct (children_loc _ _ Hc) as [k Ek]. destruct (subtree_prefix _ _ _ Hd) as [q Eq]. cbn [fst] in Ek. rewrite Ek, <- app_assoc in Eq. cbn [app] in Eq.
      apply (prefix_neq loc k q). congruence.
    + unfold children. cbn [snd fst]. generalize 0 as j. induction l as [|x l IHl]; intros j; [constructor|].
      cbn [enum_from map flat_map fst snd]. rewrite map_app. inversion H as [|a b Hx Hl]; subst. cbn [forallb] in Hw. apply andb_true_iff in Hw as [Hwx Hwl].
      apply NoDup_app_intro; [apply Hx; exact Hwx | apply IHl; assumption |].
      intros lc H1 H2. apply in_map_iff in H1 as [d1 [E1 D1]]. unfold subtree in D1. cbn [fst snd] in D1. destruct (subtree_prefix _ _ _ D1) as [q1 Q1].
      apply in_map_iff in H2 as [d2 [E2 D2]]. apply in_flat_map in D2 as [c [Hc D2]]. apply in_map_iff in Hc as [[i y] [<- Hiy]]. unfold subtree in D2. cbn [fst snd] in D2.
      destruct (subtree_prefix _ _ _ D2) as [q2 Q2].
      assert (Hi : j + 1 <= i). { clear -Hiy. revert Hiy. generalize (j + 1). induction l as [|a l IH]; intros m Hm; [contradiction|]. cbn [enum_from In] in Hm. destruct Hm as [Hm | Hm]; [inversion Hm; lia | apply IH in Hm; lia]. }
      rewrite <- E1, Q1 in E2. rewrite Q2 in E2. rewrite <- !app_assoc in E2. apply app_inv_head in E2. cbn [app] in E2. inversion E2. lia.
  - (* object *) cbn [wf_json] in Hw. apply andb_true_iff in Hw as [Hnd Hw]. constructor.
    + intros Hin. apply in_map_iff in Hin as [d [Ed Hd]]. apply in_flat_map in Hd as [c [Hc Hd]].
      destruct (children_loc _ _ Hc) as [k Ek]. destruct (subtree_prefix _ _ _ Hd) as [q Eq]. cbn [fst] in Ek. rewrite Ek, <- app_assoc in Eq. cbn [app] in Eq.
      apply (prefix_neq loc k q). congruence.
    + unfold children. cbn [snd fst]. induction m as [|[k x] m IHm]; [constructor|].
      cbn [map flat_map fst snd]. rewrite map_app. inversion H as [|a b Hx Hm]; subst. cbn [forallb snd] in Hw. apply andb_true_iff in Hw as [Hwx Hwm].
      cbn [map names_distinct fst] in Hnd. apply andb_true_iff in Hnd as [Hk Hnd]. apply negb_true_iff in Hk. apply existsb_str_false in Hk.
      apply NoDup_app_intro; [apply Hx; exact Hwx | apply IHm; assumption |].
      intros lc H1 H2. apply in_map_iff in H1 as [d1 [E1 D1]]. unfold subtree in D1. cbn [fst snd] in D1. destruct (subtree_prefix _ _ _ D1) as [q1 Q1].
      apply in_map_iff in H2 as [d2 [E2 D2]]. apply in_flat_map in D2 as [c [Hc D2]]. apply in_map_iff in Hc as [[k2 y] [<- Hky]]. unfold subtree in D2. cbn [fst snd] in D2.
      destruct (subtree_prefix _ _ _ D2) as [q2 Q2].
      rewrite <- E1, Q1 in E2. rewrite Q2 in E2. rewrite <- !app_assoc in E2. apply app_inv_head in E2. cbn [app] in E2. inversion E2; subst k2.
      apply Hk. apply in_map_iff. exists (k, y). split; [reflexivity | exact Hky].
Qed.

(* --- from the three facts to the decidable predicate of Spec/Nondet.v ------------------------------------------ *)
Lemma key_eqb_eq a b : key_eqb a b = true <-> a = b.
Proof.
  destruct a, b; cbn [key_eqb]; split; intros H; try discriminate.
  - apply str_eqb_eq in H. congruence.
  - inversion H. apply str_eqb_refl.
  - apply Z.eqb_eq in H. congruence.
  - inversion H. apply Z.eqb_refl.
Qed.
Lemma loc_eqb_eq : forall a b, loc_eqb a b = true <-> a = b.
Proof.
  unfold loc_eqb. induction a as [|x a IH]; destruct b as [|y b]; split; intros H; try discriminate; try reflexivity.
  - apply andb_true_iff in H as [H1 H2]. apply key_eqb_eq in H1. apply IH in H2. congruence.
  - inversion H; subst. apply andb_true_iff. split; [apply key_eqb_eq; reflexivity | apply IH; reflexivity].
Qed.
Lemma loc_eqb_refl a : loc_eqb a a = true. Proof. apply loc_eqb_eq. reflexivity. Qed.
Lemma loc_eqb_neq a b : a <> b -> loc_eqb a b = false.
Proof. intros H. destruct (loc_eqb a b) eqn:E; [apply loc_eqb_eq in E; contradiction | reflexivity]. Qed.

Lemma index_of_split l : forall pre suf i, ~ In l pre -> index_of l (pre ++ l :: suf) i = Some (i + length pre)%nat.
Proof.
  induction pre as [|x pre IH]; intros suf i Hn; cbn [app index_of length].
  - rewrite loc_eqb_refl. f_equal. lia.
  - rewrite loc_eqb_neq by (intros ->; apply Hn; left; reflexivity). rewrite IH by (intros H; apply Hn; right; exact H). f_equal. lia.
Qed.
Lemma index_of_in_pre p : forall pre rest i, In p pre -> exists j, index_of p (pre ++ rest) i = Some j /\ (j < i + length pre)%nat.
Proof.
  induction pre as [|x pre IH]; intros rest i H; [contradiction|]. cbn [app index_of length].
  destruct (loc_eqb p x) eqn:E; [exists i; split; [reflexivity | lia]|].
  destruct H as [-> | H]; [rewrite loc_eqb_refl in E; discriminate|]. destruct (IH rest (S i) H) as (j & Ej & Hj). exists j. split; [exact Ej | lia].
Qed.
Lemma before_split ord pre l suf p : ord = pre ++ l :: suf -> ~ In l pre -> In p pre -> before ord p l = true.
Proof.
  intros -> Hn Hp. unfold before. rewrite (index_of_split l pre suf 0 Hn). destruct (index_of_in_pre p pre (l :: suf) 0 Hp) as (j & -> & Hj).
  apply Nat.ltb_lt. lia.
Qed.
Lemma parent_and_prev_snoc p k : parent_and_prev (p ++ [k]) =
  (Some p, match k with KIdx i => if 0 <? i then Some (p ++ [KIdx (i - 1)]) else None | KName _ => None end).
Proof.
  unfold parent_and_prev. rewrite rev_app_distr. cbn [rev app]. destruct k as [s|i].
  - rewrite rev_involutive. reflexivity.
  - cbn [rev]. rewrite !rev_involutive. destruct (0 <? i); reflexivity.
Qed.

Theorem props_valid loc0 v0 ord : wf_json v0 = true ->
  Permutation ord (map fst (descendants loc0 v0)) ->
  (forall pre l suf, ord = pre ++ l :: suf -> l <> loc0 -> exists p k, l = p ++ [k] /\ In p pre) ->
  (forall pre l suf, ord = pre ++ l :: suf -> l <> loc0 -> forall p i, l = p ++ [KIdx i] -> 0 < i -> In (p ++ [KIdx (i - 1)]) pre) ->
  valid_order (loc0, v0) ord = true.
Proof.
  intros Hw Hperm Hpar Hprev. pose proof (descendants_NoDup v0 loc0 Hw) as Hnd.
  assert (Hndo : NoDup ord) by (eapply Permutation_NoDup; [apply Permutation_sym; exact Hperm | exact Hnd]).
  unfold valid_order. cbn [fst snd]. apply andb_true_iff. split; [apply andb_true_iff; split|].
  - apply Nat.eqb_eq. apply Permutation_length. exact Hperm.
  - apply forallb_forall. intros l Hl. apply (Permutation_in _ (Permutation_sym Hperm)) in Hl.
    apply in_split in Hl as (pre & suf & ->). destruct (index_of_in_pre l (pre ++ [l]) suf 0 ltac:(apply in_or_app; right; left; reflexivity)) as (j & Ej & _).
    rewrite <- app_assoc in Ej. cbn [app] in Ej. rewrite Ej. reflexivity.
  - apply forallb_forall. intros l Hl. destruct (loc_eqb l loc0) eqn:E0; [reflexivity|].
    assert (Hne : l <> loc0) by (intros ->; rewrite loc_eqb_refl in E0; discriminate).
    apply in_split in Hl as (pre & suf & Eo).
    assert (Hn : ~ In l pre). { rewrite Eo in Hndo. apply NoDup_remove_2 in Hndo. intros H. apply Hndo. apply in_or_app. left. exact H. }
    destruct (Hpar pre l suf Eo Hne) as (p & k & -> & Hp). rewrite parent_and_prev_snoc.
    rewrite (before_split ord pre (p ++ [k]) suf p Eo Hn Hp). cbn [andb].
    destruct k as [s|i]; [reflexivity|]. destruct (0 <? i) eqn:Ei; [|reflexivity].
    apply (before_split ord pre (p ++ [KIdx i]) suf _ Eo Hn). apply (Hprev pre _ suf Eo Hne p i eq_refl). lia.
Qed.

(* --- every order the frontier relation produces is a valid order ---------------------------------------------------- *)
Lemma map_split {A B} (f : A -> B) (l : list A) pre' y suf' : map f l = pre' ++ y :: suf' ->
  exists pre x suf, l = pre ++ x :: suf /\ map f pre = pre' /\ f x = y /\ map f suf = suf'.
Proof.
  intros E. apply map_eq_app in E as (l1 & l2 & -> & E1 & E2). destruct l2 as [|x l2]; [discriminate|]. cbn [map] in E2. inversion E2.
  exists l1, x, l2. auto.
Qed.

Theorem reach_valid loc0 v0 o : wf_json v0 = true -> reach (queues_of (loc0, v0)) o ->
  valid_order (loc0, v0) (map fst ((loc0, v0) :: o)) = true.
Proof.
  intros Hw Hr. apply props_valid; [exact Hw | | |].
  - cbn [map fst]. rewrite descendants_unfold. cbn [map fst]. apply perm_skip. apply Permutation_map.
    pose proof (reach_nodes o _ Hr) as P. rewrite concat_queues_of in P. exact P.
  - intros pre l suf E Hne. cbn [map fst] in E. destruct pre as [|l0 pre']; cbn [app] in E; injection E as E0 E1.
    { exfalso. apply Hne. symmetry. exact E0. }
    subst l0. apply map_split in E1 as (pre & x & suf0 & Eo & <- & <- & _).
    destruct (reach_parent o (queues_of (loc0, v0)) (fun l => l = loc0)) with (pre := pre) (x := x) (suf := suf0) as (p & k & E1 & E2); [ | exact Hr | exact Eo | ].
    + intros c Hc. rewrite concat_queues_of in Hc. destruct (children_loc _ _ Hc) as [k Ek]. cbn [fst] in Ek. exists loc0, k. split; [exact Ek | reflexivity].
    + exists p, k. split; [exact E1|]. destruct E2 as [-> | E2]; [left; reflexivity | right; exact E2].
  - intros pre l suf E Hne p i El Hi. cbn [map fst] in E. destruct pre as [|l0 pre']; cbn [app] in E; injection E as E0 E1.
    { exfalso. apply Hne. symmetry. exact E0. }
    subst l0. apply map_split in E1 as (pre & x & suf0 & Eo & <- & Ex & _).
    destruct (reach_prev o (queues_of (loc0, v0)) (fun _ => False) (queues_of_prev_ok _ _) Hr pre x suf0 Eo p i ltac:(rewrite Ex; exact El) Hi) as [[] | A]. right. exact A.
Qed.

(* --- the frontier only matters up to the order of its queues and up to empty queues ------------------------------- *)
Definition nonnil {A} (q : list A) : bool := match q with [] => false | _ => true end.
Definition ne {A} (qs : list (list A)) : list (list A) := filter nonnil qs.

Lemma concat_ne {A} (qs : list (list A)) : concat (ne qs) = concat qs.
Proof. induction qs as [|q qs IH]; [reflexivity|]. unfold ne in *. destruct q; cbn [filter nonnil concat app]; [exact IH | do 2 f_equal; exact IH]. Qed.
Lemma ne_app {A} (a b : list (list A)) : ne (a ++ b) = ne a ++ ne b.
Proof. unfold ne. apply filter_app. Qed.
Lemma Permutation_filter {A} (f : A -> bool) l l' : Permutation l l' -> Permutation (filter f l) (filter f l').
Proof.
  induction 1; cbn [filter]; [constructor | destruct (f x); [apply perm_skip|]; assumption | | eapply perm_trans; eassumption].
  destruct (f x), (f y); try apply perm_swap; apply Permutation_refl.
Qed.
Lemma ne_nil_concat {A} (qs : list (list A)) : concat qs = [] -> ne qs = [].
Proof. induction qs as [|q qs IH]; [reflexivity|]. cbn [concat]. intros H. apply app_eq_nil in H as [-> H]. cbn [ne filter nonnil]. apply IH. exact H. Qed.

Lemma reach_perm_ne : forall o qs1 qs2, Permutation (ne qs1) (ne qs2) -> reach qs1 o -> reach qs2 o.
Proof.
  induction o as [|x rest IH]; intros qs1 qs2 Hp H; cbn [reach] in *.
  - rewrite <- concat_ne. apply ne_nil_concat in H. rewrite H in Hp. apply Permutation_nil in Hp. rewrite Hp. reflexivity.
  - destruct H as (qs' & (q & r & Hq & ->) & Hr).
    assert (H1 : Permutation (ne qs2) ((x :: q) :: ne r)).
    { eapply perm_trans; [apply Permutation_sym; exact Hp|]. apply (Permutation_filter nonnil) in Hq. exact Hq. }
    assert (Hin : In (x :: q) qs2).
    { assert (In (x :: q) (ne qs2)) by (eapply Permutation_in; [apply Permutation_sym; exact H1 | left; reflexivity]). unfold ne in H. apply filter_In in H. tauto. }
    apply in_split in Hin as (a & b & ->).
    exists (q :: a ++ b). split.
    + exists q, (a ++ b). split; [apply Permutation_sym; apply Permutation_middle | reflexivity].
    + apply (IH ((q :: r) ++ queues_of x)); [|exact Hr]. rewrite !ne_app. apply Permutation_app_tail.
      assert (H2 : Permutation (ne (a ++ b)) (ne r)).
      { rewrite ne_app in H1. cbn [ne filter nonnil] in H1. fold (@ne node b) in H1. fold (@ne node a) in H1.
        rewrite ne_app. apply Permutation_cons_inv with (a := x :: q). eapply perm_trans; [apply Permutation_middle | exact H1]. }
      change (q :: r) with ([q] ++ r). change (q :: a ++ b) with ([q] ++ (a ++ b)). rewrite (ne_app [q] r), (ne_app [q] (a ++ b)).
      apply Permutation_app_head. apply Permutation_sym. exact H2.
Qed.
