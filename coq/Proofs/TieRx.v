(* how match() / search() reach the regex engine, as observed on the current source (Gen/Rx.v) *)
From JP Require Import Base.Prelude Gen.Rx.
Theorem rx_calls_regenerated :
  g_match_flags = 0%nat /\ g_search_flags = 0%nat /\
  g_match_entry = [102; 117; 108; 108; 109; 97; 116; 99; 104]%N /\ g_search_entry = [115; 101; 97; 114; 99; 104]%N /\
  g_match_maps = true /\ g_search_maps = true.
Proof. repeat split; reflexivity. Qed.
