(* C03 / C01, the lexer on EVERY spelling of a filter-free query: any blank space where the abstract machine of Proofs/LexSpell.v allows
   it, shorthand or bracket notation, either quote style with every escape form, every integer spelling the grammar allows.

   If the token grammar QT derives t for a filter-free query q and the text z is a spelling of t (RunT: gaps of blanks, "." before
   shorthand names, nothing after "..", quotes around string bodies), then the lexer cuts "$" ++ z into ROOT, tokens with the same
   types and texts as t, EOF - and so compile() returns q (with Proofs/ParseComplete.v).  By induction on the derivation, driving the
   state machine forward; the side conditions are maximal-munch facts: what follows a name is not a name character, what follows an
   integer is not a digit. *)
From JP Require Import Base.Prelude Base.Json Model.Regex Model.Tokens Model.Lex Model.Ast Model.Parse Model.Api Spec.Types Spec.StringLit
  Proofs.StringProofs Proofs.LexString Proofs.LexNoCrash Proofs.LexInv Proofs.Requery Proofs.Reparse Proofs.ReparseF Proofs.ParseComplete Proofs.ParseSound
  Proofs.LexShape Proofs.LexSpell Proofs.AbnfDerive Proofs.TextSound.
From Coq Require Import ZifyBool ZifyN.

Notation C0 := (G 0 [] []).

(* ---- blanks ---- *)
Lemma blank_ws c : in_ranges c ws_ranges = is_blank c.
Proof. rewrite <- blank_ranges. unfold ws_ranges. destruct (in_ranges c _); reflexivity. Qed.
Definition nb_head (rest : list N) : Prop := match rest with c :: _ => is_blank c = false | [] => True end.

Lemma ws_match b rest : b <> [] -> blanks b -> nb_head rest -> re_match RE_WHITESPACE (b ++ rest) = Some (zlen b).
Proof.
  intros Hne Hb Hr. destruct b as [|c b']; [congruence|]. unfold blanks in Hb. cbn [forallb] in Hb. apply andb_true_iff in Hb as [Hc Hb'].
  unfold re_match. set (s := (c :: b') ++ rest). replace (8 * length s + 64)%nat with (S (S (8 * length s + 62)))%nat by lia. subst s.
  unfold RE_WHITESPACE, RPlus. cbn [app]. rewrite rm_seq_S, rm_class_S. fold ws_ranges. rewrite blank_ws, Hc. cbn [xorb].
  rewrite (star_class ws_ranges b' _ (0 + 1) rest (fun _ n => Some n) (zlen (c :: b'))); [reflexivity | | | | ].
  - rewrite forallb_forall in *. intros d Hd. rewrite blank_ws. exact (Hb' d Hd).
  - destruct rest as [|d r]; [exact I|]. rewrite blank_ws. exact Hr.
  - cbn [length app]. rewrite app_length. lia.
  - f_equal. unfold zlen. cbn [length]. lia.
Qed.

Lemma ws_skip b rest p bs T : blanks b -> nb_head rest ->
  l_ignore_ws (C0 (b ++ rest) p bs T) = Some (match b with [] => false | _ => true end, C0 rest (p + zlen b) bs T).
Proof.
  intros Hb Hr. unfold l_ignore_ws, G. cbn [l_cur LX]. unfold l_accept_match. cbn [l_rest LX]. destruct b as [|c b'].
  - cbn [app]. assert (E : re_match RE_WHITESPACE rest = None).
    { unfold re_match. destruct rest as [|d r]; [apply ws_no_match_nil | apply ws_no_match; rewrite blank_ws; exact Hr]. }
    rewrite E. f_equal. f_equal. apply GX_pos. unfold zlen. cbn [length]. lia.
  - rewrite (ws_match (c :: b') rest ltac:(discriminate) Hb Hr). rewrite advance_app. reflexivity.
Qed.

(* ---- names ---- *)
Definition name_shape (nm : list N) : Prop := exists c cs, nm = c :: cs /\ in_ranges c cls_name_first = true /\ forallb (fun x => in_ranges x cls_name_char) cs = true.
Definition nn_head (rest : list N) : Prop := match rest with c :: _ => in_ranges c cls_name_char = false | [] => True end.
Lemma lang_name nm : lang RE_PROPERTY nm -> name_shape nm.
Proof.
  intros H. unfold RE_PROPERTY in H. apply lang_seq_inv in H as (s1 & s2 & -> & H1 & H2). apply lang_cls_inv in H1 as (c & -> & Hc). apply lang_star_cls in H2.
  exists c, s2. split; [reflexivity|]. split; [cbn [xorb] in Hc; destruct (in_ranges c cls_name_first); [reflexivity | discriminate Hc] | exact H2].
Qed.
Lemma name_match nm rest : name_shape nm -> nn_head rest -> re_match RE_PROPERTY (nm ++ rest) = Some (zlen nm).
Proof.
  intros (c & cs & -> & Hc & Hcs) Hr. unfold re_match. set (s := (c :: cs) ++ rest). replace (8 * length s + 64)%nat with (S (S (8 * length s + 62)))%nat by lia. subst s.
  unfold RE_PROPERTY. cbn [app]. rewrite rm_seq_S, rm_class_S, Hc. cbn [xorb].
  rewrite (star_class cls_name_char cs _ (0 + 1) rest (fun _ n => Some n) (zlen (c :: cs))); [reflexivity | exact Hcs | exact Hr | | ].
  - cbn [length app]. rewrite app_length. lia.
  - f_equal. unfold zlen. cbn [length]. lia.
Qed.

(* ---- one token at a time, the lexer being between tokens (cur empty, no filter open) ---- *)
Ltac lx_eq := unfold G, LX, l_emit, l_ignore, add_tok, upd_text, set_stacks, push_bracket, tk; cbn [l_rest l_cur l_start l_pos l_fdepth l_ffd l_fcs l_bs l_toks rev app];
  rewrite <- ?Z.add_assoc; cbn [Z.add Pos.add Pos.succ Z.sub Z.opp Z.pos_sub]; try reflexivity.

Definition nbh (X : list N) : Prop := exists c r, X = c :: r /\ is_blank c = false.
Lemma nbh_nb X : nbh X -> nb_head X. Proof. intros (c & r & -> & H). exact H. Qed.

(* blanks before a token are skipped by the state function itself *)
Lemma seg_ws b X p bs T : blanks b -> nbh X -> lex_step SSegment (C0 (b ++ X) p bs T) = lex_step SSegment (C0 X (p + zlen b) bs T).
Proof.
  intros Hb HX. pose proof (nbh_nb X HX) as Hn. destruct HX as (c & r & -> & Hc). cbn [lex_step].
  pose proof (ws_skip [] (c :: r) (p + zlen b) bs T eq_refl Hn) as E0. cbn [app] in E0.
  rewrite (ws_skip b (c :: r) p bs T Hb Hn), E0.
  replace (p + zlen b + zlen (@nil N)) with (p + zlen b) by (unfold zlen; cbn [length]; lia).
  unfold G. cbn [l_peek l_rest LX]. rewrite !andb_false_r. reflexivity.
Qed.
Lemma brk_ws b X p bs T : blanks b -> nbh X -> lex_step SBracket (C0 (b ++ X) p bs T) = lex_step SBracket (C0 X (p + zlen b) bs T).
Proof.
  intros Hb HX. pose proof (nbh_nb X HX) as Hn. cbn [lex_step].
  pose proof (ws_skip [] X (p + zlen b) bs T eq_refl Hn) as E0. cbn [app] in E0.
  rewrite (ws_skip b X p bs T Hb Hn), E0.
  replace (p + zlen b + zlen (@nil N)) with (p + zlen b) by (unfold zlen; cbn [length]; lia). reflexivity.
Qed.

Lemma name_first_facts c : in_ranges c cls_name_first = true -> is_blank c = false /\ N.eqb c 42 = false /\ N.eqb c 46 = false /\ N.eqb c 91 = false.
Proof. intros H. unfold cls_name_first in H. cbn [in_ranges] in H. unfold is_blank. lia. Qed.

Lemma upd_GX fd ffd fcs r c s p bs T r' c' s' p' : upd_text (GX fd ffd fcs r c s p bs T) r' c' s' p' = GX fd ffd fcs r' c' s' p' bs T.
Proof. reflexivity. Qed.
Lemma ign_GX fd ffd fcs r c s p bs T : l_ignore (GX fd ffd fcs r c s p bs T) = GX fd ffd fcs r [] p p bs T.
Proof. reflexivity. Qed.
Lemma acc_ws_no (l : lexer) c r : l_rest l = c :: r -> is_blank c = false -> l_accept_match RE_WHITESPACE l = (false, l).
Proof. intros E H. unfold l_accept_match, re_match. rewrite E, ws_no_match by (rewrite blank_ws; exact H). reflexivity. Qed.

(* ".name" and ".*": the state after the dot *)
Lemma sh_wild r s q bs T : lex_step SShorthand (GX 0 [] [] (42%N :: r) [46%N] s q bs T) = LNext SSegment (C0 r (q + 1) bs (tk T_WILD [42%N] q :: T)).
Proof.
  cbn [lex_step]. cbv zeta. rewrite (acc_ws_no (l_ignore (GX 0 [] [] (42%N :: r) [46%N] s q bs T)) 42 r eq_refl eq_refl). reflexivity.
Qed.
Lemma sh_name nm r s q bs T : name_shape nm -> nn_head r ->
  lex_step SShorthand (GX 0 [] [] (nm ++ r) [46%N] s q bs T) = LNext SSegment (C0 r (q + zlen nm) bs (tk T_PROPERTY nm q :: T)).
Proof.
  intros Hn Hr. pose proof (name_match nm r Hn Hr) as Hm. destruct Hn as (c & cs & -> & Hc & Hcs). destruct (name_first_facts c Hc) as (B & E42 & _ & _).
  cbn [lex_step app]. cbv zeta. rewrite ign_GX. rewrite (acc_ws_no (GX 0 [] [] (c :: cs ++ r) [] q q bs T) c (cs ++ r) eq_refl B).
  change (l_next (GX 0 [] [] (c :: cs ++ r) [] q q bs T)) with (Some c, GX 0 [] [] (cs ++ r) [c] q (q + 1) bs T). cbv beta iota. cbn [ceq]. rewrite E42.
  change (l_backup (GX 0 [] [] (cs ++ r) [c] q (q + 1) bs T)) with (Some (GX 0 [] [] ((c :: cs) ++ r) [] q (q + 1 - 1) bs T)). cbv iota.
  unfold l_accept_match. cbn [l_rest LX]. rewrite Hm. rewrite advance_app.
  rewrite emit_GX, app_nil_r, rev_involutive. unfold G. f_equal. replace (q + 1 - 1 + zlen (c :: cs)) with (q + zlen (c :: cs)) by lia. reflexivity.
Qed.

Lemma seg_dd b r p T : blanks b ->
  lex_step SSegment (C0 (b ++ 46%N :: 46%N :: r) p [] T) = LNext SDescendant (C0 r (p + zlen b + 2) [] (tk T_DOUBLE_DOT [46; 46]%N (p + zlen b) :: T)).
Proof.
  intros Hb. cbn [lex_step]. rewrite (ws_skip b (46%N :: 46%N :: r) p [] T Hb eq_refl). unfold G. cbn. rewrite andb_false_r. cbn. lx_eq.
Qed.

(* ---- reaching the state after one token, from the spelled text: blanks, the token's extra characters, its text ---- *)
Lemma reach_ws st b X p bs T : (st = SSegment \/ st = SBracket) -> blanks b -> nbh X -> reachS st (C0 (b ++ X) p bs T) st (C0 X (p + zlen b) bs T).
Proof. intros [-> | ->] Hb HX; apply reachS_sim; apply sim_of_step; [apply seg_ws | apply brk_ws]; assumption. Qed.
Lemma nbh_cons c r : is_blank c = false -> nbh (c :: r). Proof. intros H. exists c, r. split; [reflexivity | exact H]. Qed.

Lemma seg_dot x r p T : N.eqb x 46 = false -> lex_step SSegment (C0 (46%N :: x :: r) p [] T) = LNext SShorthand (GX 0 [] [] (x :: r) [46%N] p (p + 1) [] T).
Proof.
  intros Hx. cbn [lex_step]. pose proof (ws_skip [] (46%N :: x :: r) p [] T eq_refl eq_refl) as E0. cbn [app] in E0. rewrite E0.
  replace (p + zlen (@nil N)) with p by (unfold zlen; cbn [length]; lia). unfold G.
  change (l_peek (GX 0 [] [] (46%N :: x :: r) [] p p [] T)) with (Some 46%N). cbv iota. cbn [andb].
  change (l_next (GX 0 [] [] (46%N :: x :: r) [] p p [] T)) with (Some 46%N, GX 0 [] [] (x :: r) [46%N] p (p + 1) [] T). cbv beta iota.
  change (N.eqb 46 46) with true. cbv iota. change (l_peek (GX 0 [] [] (x :: r) [46%N] p (p + 1) [] T)) with (Some x). cbn [ceq]. rewrite Hx. reflexivity.
Qed.

Lemma R_prop b nm fr p T : blanks b -> name_shape nm -> nn_head fr ->
  exists p' i, reachS SSegment (C0 (b ++ [46%N] ++ nm ++ fr) p [] T) SSegment (C0 fr p' [] (tk T_PROPERTY nm i :: T)).
Proof.
  intros Hb Hn Hf. pose proof Hn as (c & cs & E & Hc & Hcs). destruct (name_first_facts c Hc) as (_ & _ & E46 & _).
  eexists; eexists. eapply reachS_trans; [apply (reach_ws SSegment b ([46%N] ++ nm ++ fr) p [] T (or_introl eq_refl) Hb (nbh_cons 46 _ eq_refl))|].
  subst nm. cbn [app]. eapply reachS_trans; [apply reachS_step; apply (seg_dot c (cs ++ fr) _ T E46)|].
  apply reachS_step. apply (sh_name (c :: cs) fr _ _ [] T); [exists c, cs; auto | exact Hf].
Qed.
Lemma R_wild_sh b fr p T : blanks b -> exists p' i, reachS SSegment (C0 (b ++ [46%N] ++ [42%N] ++ fr) p [] T) SSegment (C0 fr p' [] (tk T_WILD [42%N] i :: T)).
Proof.
  intros Hb. eexists; eexists. eapply reachS_trans; [apply (reach_ws SSegment b ([46%N] ++ [42%N] ++ fr) p [] T (or_introl eq_refl) Hb (nbh_cons 46 _ eq_refl))|].
  cbn [app]. eapply reachS_trans; [apply reachS_step; apply (seg_dot 42 fr _ T eq_refl)|]. apply reachS_step. apply sh_wild.
Qed.
Lemma R_dd b fr p T : blanks b -> exists p' i, reachS SSegment (C0 (b ++ [46; 46]%N ++ fr) p [] T) SDescendant (C0 fr p' [] (tk T_DOUBLE_DOT [46; 46]%N i :: T)).
Proof. intros Hb. eexists; eexists. apply reachS_step. apply seg_dd. exact Hb. Qed.
Lemma R_lb b fr p T : blanks b -> exists p' i j, reachS SSegment (C0 (b ++ [91%N] ++ fr) p [] T) SBracket (C0 fr p' [(91%N, j)] (tk T_LBRACKET [91%N] i :: T)).
Proof.
  intros Hb. eexists; eexists; eexists. eapply reachS_trans; [apply (reach_ws SSegment b ([91%N] ++ fr) p [] T (or_introl eq_refl) Hb (nbh_cons 91 _ eq_refl))|].
  apply reachS_step. cbn [app]. apply (Requery.step_seg_open 0 [] [] [] fr _ T).
Qed.


(* after ".." *)
Lemma D_wild fr p T : exists p' i, reachS SDescendant (C0 ([42%N] ++ fr) p [] T) SSegment (C0 fr p' [] (tk T_WILD [42%N] i :: T)).
Proof. eexists; eexists. apply reachS_step. reflexivity. Qed.
Lemma D_lb fr p T : exists p' i j, reachS SDescendant (C0 ([91%N] ++ fr) p [] T) SBracket (C0 fr p' [(91%N, j)] (tk T_LBRACKET [91%N] i :: T)).
Proof. eexists; eexists; eexists. apply reachS_step. reflexivity. Qed.
Lemma D_prop nm fr p T : name_shape nm -> nn_head fr -> exists p' i, reachS SDescendant (C0 (nm ++ fr) p [] T) SSegment (C0 fr p' [] (tk T_PROPERTY nm i :: T)).
Proof.
  intros Hn Hr. pose proof (name_match nm fr Hn Hr) as Hm. destruct Hn as (c & cs & -> & Hc & Hcs). destruct (name_first_facts c Hc) as (_ & E42 & _ & E91).
  eexists; eexists. apply reachS_step. unfold G. cbn [lex_step app].
  change (l_next (GX 0 [] [] (c :: cs ++ fr) [] p p [] T)) with (Some c, GX 0 [] [] (cs ++ fr) [c] p (p + 1) [] T). cbv beta iota. rewrite E42, E91.
  change (l_backup (GX 0 [] [] (cs ++ fr) [c] p (p + 1) [] T)) with (Some (GX 0 [] [] ((c :: cs) ++ fr) [] p (p + 1 - 1) [] T)). cbv iota.
  unfold l_accept_match. cbn [l_rest LX]. rewrite Hm. rewrite advance_app. rewrite emit_GX, app_nil_r, rev_involutive. reflexivity.
Qed.

(* inside brackets *)
Lemma B_rb b fr p j T : blanks b -> exists p' i, reachS SBracket (C0 (b ++ [93%N] ++ fr) p [(91%N, j)] T) SSegment (C0 fr p' [] (tk T_RBRACKET [93%N] i :: T)).
Proof.
  intros Hb. eexists; eexists. eapply reachS_trans; [apply (reach_ws SBracket b ([93%N] ++ fr) p _ T (or_intror eq_refl) Hb (nbh_cons 93 _ eq_refl))|].
  apply reachS_step. cbn [app]. apply (Requery.step_bracket_close 0 [] [] [] fr _ j T).
Qed.
Lemma B_char b c t fr p bs T : blanks b -> (c = 42%N /\ t = T_WILD) \/ (c = 44%N /\ t = T_COMMA) \/ (c = 58%N /\ t = T_COLON) ->
  exists p' i, reachS SBracket (C0 (b ++ [c] ++ fr) p bs T) SBracket (C0 fr p' bs (tk t [c] i :: T)).
Proof.
  intros Hb Hc. assert (Hnb : is_blank c = false) by (destruct Hc as [[-> _] | [[-> _] | [-> _]]]; reflexivity).
  eexists; eexists. eapply reachS_trans; [apply (reach_ws SBracket b ([c] ++ fr) p bs T (or_intror eq_refl) Hb (nbh_cons c _ Hnb))|].
  apply reachS_step. cbn [app]. apply (step_bracket_char 0 [] [] c t fr _ bs T Hc).
Qed.
Lemma int_head_nonblank ds i : int_text_ok ds i -> nbh ds.
Proof.
  intros (_ & _ & (sign & body & -> & Hs & Hb & Hd) & _). destruct body as [|d body']; [congruence|]. cbn [forallb] in Hd. apply andb_true_iff in Hd as [Hd1 _]. unfold isd in Hd1.
  destruct Hs as [-> | ->]; cbn [app]; eexists; eexists; (split; [reflexivity|]); unfold is_blank; [lia | reflexivity].
Qed.
Lemma B_int b ds i0 c r p bs T : blanks b -> int_text_ok ds i0 -> isd c = false ->
  exists p' i, reachS SBracket (C0 (b ++ ds ++ c :: r) p bs T) SBracket (C0 (c :: r) p' bs (tk T_INDEX ds i :: T)).
Proof.
  intros Hb Hi Hc. destruct (int_head_nonblank ds i0 Hi) as (d & ds' & Ed & Hd).
  eexists; eexists. eapply reachS_trans; [apply (reach_ws SBracket b (ds ++ c :: r) p bs T (or_intror eq_refl) Hb)|].
  { rewrite Ed. cbn [app]. apply nbh_cons. exact Hd. }
  apply reachS_step. apply (step_bracket_int 0 [] [] ds i0 c r _ bs T Hi Hc).
Qed.
Lemma B_str b q body fr p bs T : blanks b -> qok q -> lex_ok q body = true ->
  exists p' i, reachS SBracket (C0 (b ++ [q] ++ body ++ [q] ++ fr) p bs T) SBracket (C0 fr p' bs (tk (tt_of q) body i :: T)).
Proof.
  intros Hb Hq Hl. assert (Hnb : is_blank q = false) by (destruct Hq as [-> | ->]; reflexivity).
  eexists; eexists. eapply reachS_trans; [apply (reach_ws SBracket b ([q] ++ body ++ [q] ++ fr) p bs T (or_intror eq_refl) Hb (nbh_cons q _ Hnb))|].
  cbn [app]. set (p1 := p + zlen b).
  assert (E1 : lex_step SBracket (C0 (q :: body ++ q :: fr) p1 bs T) = LNext (SString q false) (GX 0 [] [] (body ++ q :: fr) [q] p1 (p1 + 1) bs T)).
  { cbn [lex_step]. pose proof (ws_skip [] (q :: body ++ q :: fr) p1 bs T eq_refl Hnb) as E0. cbn [app] in E0. rewrite E0.
    replace (p1 + zlen (@nil N)) with p1 by (unfold zlen; cbn [length]; lia). destruct Hq as [-> | ->]; reflexivity. }
  eapply reachS_trans; [apply reachS_step; exact E1|].
  destruct (lex_string_literal q false (GX 0 [] [] (body ++ q :: fr) [q] p1 (p1 + 1) bs T) body fr Hq eq_refl Hl) as (k & _ & Hk).
  eapply reachS_steps. rewrite Hk. unfold after, with_string_token, G, tk. cbn [l_pos l_fdepth l_ffd l_fcs l_bs l_toks LX]. reflexivity.
Qed.

(* ======================= every spelling of a filter-free query ================================================================ *)
From JP Require Import Proofs.EvalProofs.

Definition fol_sel (fr : list N) : Prop := exists c r, fr = c :: r /\ isd c = false.
Definition seg_hd (z : list N) : Prop := exists c r, z = c :: r /\ (is_blank c = true \/ c = 46%N \/ c = 91%N).
Lemma seg_hd_nn z fr : seg_hd z -> nn_head (z ++ fr).
Proof.
  intros (c & r & -> & H). cbn [app nn_head]. unfold cls_name_char. cbn [in_ranges]. unfold is_blank in H. destruct H as [H | [-> | ->]]; [|reflexivity|reflexivity]. lia.
Qed.
Lemma seg_hd_blank b x : blanks b -> seg_hd x -> seg_hd (b ++ x).
Proof.
  intros Hb Hx. destruct b as [|c b']; [exact Hx|]. unfold blanks in Hb. cbn [forallb] in Hb. apply andb_true_iff in Hb as [Hc _].
  exists c, (b' ++ x). split; [reflexivity | left; exact Hc].
Qed.
Lemma fol_blank b c r : blanks b -> isd c = false -> fol_sel (b ++ c :: r).
Proof.
  intros Hb Hc. destruct b as [|d b']; [exists c, r; split; [reflexivity | exact Hc]|]. unfold blanks in Hb. cbn [forallb] in Hb. apply andb_true_iff in Hb as [Hd _].
  exists d, (b' ++ c :: r). split; [reflexivity|]. unfold is_blank in Hd. unfold isd. lia.
Qed.

Lemma decode_reidx t k : (ty t = T_SQ_STRING \/ ty t = T_DQ_STRING) -> tshape (ty t) (tval t) -> sc (tval t) -> decode_string_literal t = Ok k ->
  exists q, qok q /\ ty t = tt_of q /\ lex_ok q (tval t) = true /\ forall i, decode_string_literal (tk (tt_of q) (tval t) i) = Ok k.
Proof.
  intros Hty Ht Hsc Hd. destruct t as [T v j]. cbn [ty tval] in *. destruct Hty as [-> | ->]; cbn [tshape] in Ht.
  - exists 39%N. split; [left; reflexivity|]. split; [reflexivity|]. split; [exact Ht|]. intros i. unfold tk, tt_of. change (N.eqb 39 39) with true. cbv iota.
    rewrite (decode_sq v j Ht Hsc) in Hd. rewrite (decode_sq v i Ht Hsc). destruct (spec_decode 39 v); [exact Hd | discriminate Hd].
  - exists 34%N. split; [right; reflexivity|]. split; [reflexivity|]. split; [exact Ht|]. intros i. unfold tk, tt_of. change (N.eqb 34 39) with false. cbv iota.
    rewrite (decode_dq v j Ht Hsc) in Hd. rewrite (decode_dq v i Ht Hsc). destruct (spec_decode 34 v); [exact Hd | discriminate Hd].
Qed.

Section FF.
Variable cfg : envcfg.
Notation QT := (QT cfg). Notation SegT := (SegT cfg). Notation SelsT := (SelsT cfg). Notation SelT := (SelT cfg).

Definition L_QT (q : list seg) (t : list token) : Prop :=
  filter_free q = true -> forall a z a' fr p T, okS a -> am a = MSeg -> sc z -> RunT a t z a' -> nn_head fr ->
    exists t' p', reachS SSegment (C0 (z ++ fr) p [] T) SSegment (C0 fr p' [] (rev t' ++ T)) /\ QT q t' /\ (z = [] \/ seg_hd z).
Definition L_SegT (g : seg) (t : list token) : Prop :=
  ff_seg g = true -> forall a z a' fr p T, okS a -> am a = MSeg -> sc z -> RunT a t z a' -> nn_head fr ->
    exists t' p', reachS SSegment (C0 (z ++ fr) p [] T) SSegment (C0 fr p' [] (rev t' ++ T)) /\ SegT g t' /\ seg_hd z.
Definition L_SelsT (ss : list sel) (t : list token) : Prop :=
  forallb ff_sel ss = true -> forall a z a' fr p j T, okS a -> am a = MBrk -> sc z -> RunT a t z a' -> fol_sel fr ->
    exists t' p', reachS SBracket (C0 (z ++ fr) p [(91%N, j)] T) SBracket (C0 fr p' [(91%N, j)] (rev t' ++ T)) /\ SelsT ss t' /\ a' = a.
Definition L_SelT (s : sel) (t : list token) : Prop :=
  ff_sel s = true -> forall a z a' fr p j T, okS a -> am a = MBrk -> sc z -> RunT a t z a' -> fol_sel fr ->
    exists t' p', reachS SBracket (C0 (z ++ fr) p [(91%N, j)] T) SBracket (C0 fr p' [(91%N, j)] (rev t' ++ T)) /\ SelT s t' /\ a' = a.

Ltac txt2 := cbn [app pre post ty tval tk]; rewrite ?app_nil_r, <- ?app_assoc; cbn [app]; rewrite ?app_nil_r, <- ?app_assoc; try reflexivity.

Ltac retext Y := match goal with |- reachS _ (G _ _ _ ?X _ _ _) _ _ => replace X with Y by txt2 end.

Lemma l_sg_prop k i : L_SegT (Child [SName k]) [tk T_PROPERTY k i].
Proof.
  intros _ a z a' fr p T Ho Hm Hsc H Hf. runc H k0 a1 b z' Hs Hb Hn Ht HR. runnil HR. stepM Hs Hm.
  destruct (R_prop b k fr p T Hb (lang_name k (pmatch_lang _ _ Ht)) Hf) as (p' & i' & R). exists [tk T_PROPERTY k i'], p'. split; [|split].
  - cbn [rev app]. retext (b ++ [46%N] ++ k ++ fr). exact R.
  - constructor.
  - cbn [ty tval tk]. apply seg_hd_blank; [exact Hb|]. exists 46%N, (k ++ post T_PROPERTY ++ []). split; [reflexivity | right; left; reflexivity].
Qed.
Lemma l_sg_wild v i : L_SegT (Child [SWild]) [tk T_WILD v i].
Proof.
  intros _ a z a' fr p T Ho Hm Hsc H Hf. runc H k0 a1 b z' Hs Hb Hn Ht HR. runnil HR. stepM Hs Hm.
  destruct (R_wild_sh b fr p T Hb) as (p' & i' & R). exists [tk T_WILD [42%N] i'], p'. split; [|split].
  - cbn [rev app]. retext (b ++ [46%N] ++ [42%N] ++ fr). exact R.
  - constructor.
  - cbn [ty tval tk]. apply seg_hd_blank; [exact Hb|]. exists 46%N, ([42%N] ++ post T_WILD ++ []). split; [reflexivity | right; left; reflexivity].
Qed.

Lemma fol_rb b r : blanks b -> fol_sel (b ++ [93%N] ++ r).
Proof. intros Hb. apply fol_blank; [exact Hb | reflexivity]. Qed.
Lemma rev3 (x : token) (t : list token) (y : token) (T : list token) : rev (x :: t ++ [y]) ++ T = y :: rev t ++ x :: T.
Proof. cbn [rev]. rewrite rev_app_distr. cbn [rev app]. rewrite <- !app_assoc. reflexivity. Qed.

(* the selectors and the closing bracket *)
Lemma l_close ss t v i : SelsT ss t -> L_SelsT ss t -> forallb ff_sel ss = true -> forall a z a' fr p j T, okS a -> am a = MBrk -> sc z -> RunT a (t ++ [tk T_RBRACKET v i]) z a' ->
  exists t' p' i', reachS SBracket (C0 (z ++ fr) p [(91%N, j)] T) SSegment (C0 fr p' [] (tk T_RBRACKET [93%N] i' :: rev t' ++ T)) /\ SelsT ss t' /\ a' = amode_set a MSeg.
Proof.
  intros HS0 IH Hff a z a' fr p j T Ho Hm Hsc H. apply RunT_app in H as (z1 & z2 & a1 & -> & H1 & H2). apply sc_app in Hsc as [Hsc1 Hsc2].
  destruct (proj1 (proj2 (proj2 (grammar_spelled cfg))) ss t HS0 a z1 a1 Ho Hm Hsc1 H1) as (Has & _).
  runc H2 k0 a2 b2 z' Hs Hb2 Hn Ht HR. runnil HR. destruct (after_sel_steps a a1 Hm Has) as [_ E].
  assert (k0 = GBl /\ a2 = amode_set a MSeg) as [-> ->] by (rewrite E in Hs; inversion Hs; split; reflexivity). subst v.
  assert (Hfol : fol_sel ((b2 ++ pre GBl T_RBRACKET ++ [93%N] ++ post T_RBRACKET ++ []) ++ fr)).
  { replace ((b2 ++ pre GBl T_RBRACKET ++ [93%N] ++ post T_RBRACKET ++ []) ++ fr) with (b2 ++ [93%N] ++ fr) by txt2. apply fol_rb. exact Hb2. }
  destruct (IH Hff a z1 a1 _ p j T Ho Hm Hsc1 H1 Hfol) as (t' & p1 & R1 & HS & ->).
  destruct (B_rb b2 fr p1 j (rev t' ++ T) Hb2) as (p2 & i2 & R2). exists t', p2, i2. split; [|split; [exact HS | reflexivity]].
  eapply reachS_trans; [rewrite <- app_assoc; exact R1|]. retext (b2 ++ [93%N] ++ fr). exact R2.
Qed.

Lemma l_sg_br ss t v1 i1 v2 i2 : SelsT ss t -> L_SelsT ss t -> L_SegT (Child ss) (tk T_LBRACKET v1 i1 :: t ++ [tk T_RBRACKET v2 i2]).
Proof.
  intros HS0 IH Hff a z a' fr p T Ho Hm Hsc H Hf. runc H k0 a1 b z' Hs Hb Hn Ht HR. stepM Hs Hm. do 4 (apply sc_app in Hsc as [_ Hsc]).
  destruct (R_lb b (z' ++ fr) p T Hb) as (p1 & i1' & j & R1).
  destruct (l_close ss t v2 i2 HS0 IH Hff (amode_set a MBrk) z' a' fr p1 j (tk T_LBRACKET [91%N] i1' :: T) (okS_same _ _ (same_stk_mode a MBrk) Ho) eq_refl Hsc HR) as (t' & p2 & i2' & R2 & HS & ->).
  exists (tk T_LBRACKET [91%N] i1' :: t' ++ [tk T_RBRACKET [93%N] i2']), p2. split; [|split].
  - rewrite rev3. eapply reachS_trans; [|exact R2]. retext (b ++ [91%N] ++ z' ++ fr). exact R1.
  - constructor. exact HS.
  - cbn [ty tval tk pre post]. apply seg_hd_blank; [exact Hb|]. exists 91%N, ([] ++ z'). split; [reflexivity | right; right; reflexivity].
Qed.

Lemma l_sg_dprop k i v0 i0 : L_SegT (Desc [SName k]) [tk T_DOUBLE_DOT v0 i0; tk T_PROPERTY k i].
Proof.
  intros _ a z a' fr p T Ho Hm Hsc H Hf. runc H k0 a1 b z' Hs Hb Hn Ht HR. destruct (step_dd a k0 a1 Hm Hs) as [-> ->]. try subst v0.
  runc HR k1 a2 b1 z'' Hs1 Hb1 Hn1 Ht1 HR1. runnil HR1. unfold astep in Hs1. cbn in Hs1. inversion Hs1; subst. rewrite (Hn1 eq_refl).
  destruct (R_dd b (k ++ fr) p T Hb) as (p1 & i1 & R1). destruct (D_prop k fr p1 (tk T_DOUBLE_DOT [46; 46]%N i1 :: T) (lang_name k (pmatch_lang _ _ Ht1)) Hf) as (p2 & i2 & R2).
  exists [tk T_DOUBLE_DOT [46; 46]%N i1; tk T_PROPERTY k i2], p2. split; [|split].
  - cbn [rev app]. eapply reachS_trans; [|exact R2]. retext (b ++ [46; 46]%N ++ k ++ fr). exact R1.
  - constructor.
  - cbn [ty tval tk pre post]. apply seg_hd_blank; [exact Hb|]. eexists; eexists. split; [reflexivity | right; left; reflexivity].
Qed.
Lemma l_sg_dwild v i v0 i0 : L_SegT (Desc [SWild]) [tk T_DOUBLE_DOT v0 i0; tk T_WILD v i].
Proof.
  intros _ a z a' fr p T Ho Hm Hsc H Hf. runc H k0 a1 b z' Hs Hb Hn Ht HR. destruct (step_dd a k0 a1 Hm Hs) as [-> ->]. try subst v0.
  runc HR k1 a2 b1 z'' Hs1 Hb1 Hn1 Ht1 HR1. runnil HR1. unfold astep in Hs1. cbn in Hs1. inversion Hs1; subst. rewrite (Hn1 eq_refl). try subst v.
  destruct (R_dd b ([42%N] ++ fr) p T Hb) as (p1 & i1 & R1). destruct (D_wild fr p1 (tk T_DOUBLE_DOT [46; 46]%N i1 :: T)) as (p2 & i2 & R2).
  exists [tk T_DOUBLE_DOT [46; 46]%N i1; tk T_WILD [42%N] i2], p2. split; [|split].
  - cbn [rev app]. eapply reachS_trans; [|exact R2]. retext (b ++ [46; 46]%N ++ [42%N] ++ fr). exact R1.
  - constructor.
  - cbn [ty tval tk pre post]. apply seg_hd_blank; [exact Hb|]. eexists; eexists. split; [reflexivity | right; left; reflexivity].
Qed.
Lemma l_sg_dbr ss t v0 i0 v1 i1 v2 i2 : SelsT ss t -> L_SelsT ss t -> L_SegT (Desc ss) (tk T_DOUBLE_DOT v0 i0 :: tk T_LBRACKET v1 i1 :: t ++ [tk T_RBRACKET v2 i2]).
Proof.
  intros HS0 IH Hff a z a' fr p T Ho Hm Hsc H Hf. runc H k0 a1 b z' Hs Hb Hn Ht HR. destruct (step_dd a k0 a1 Hm Hs) as [-> ->]. try subst v0.
  runc HR k1 a2 b1 z'' Hs1 Hb1 Hn1 Ht1 HR1. unfold astep in Hs1. cbn in Hs1. inversion Hs1; subst. rewrite (Hn1 eq_refl). try subst v1. do 8 (apply sc_app in Hsc as [_ Hsc]).
  destruct (R_dd b ([91%N] ++ z'' ++ fr) p T Hb) as (p1 & i1' & R1). destruct (D_lb (z'' ++ fr) p1 (tk T_DOUBLE_DOT [46; 46]%N i1' :: T)) as (p2 & i2' & j & R2).
  destruct (l_close ss t v2 i2 HS0 IH Hff (amode_set (amode_set a MDesc) MBrk) z'' a' fr p2 j (tk T_LBRACKET [91%N] i2' :: tk T_DOUBLE_DOT [46; 46]%N i1' :: T) (okS_same _ _ (same_stk_mode a MBrk) Ho) eq_refl Hsc HR1)
    as (t' & p3 & i3' & R3 & HS & ->).
  exists (tk T_DOUBLE_DOT [46; 46]%N i1' :: tk T_LBRACKET [91%N] i2' :: t' ++ [tk T_RBRACKET [93%N] i3']), p3. split; [|split].
  - assert (Etoks : rev (tk T_DOUBLE_DOT [46; 46]%N i1' :: tk T_LBRACKET [91%N] i2' :: t' ++ [tk T_RBRACKET [93%N] i3']) ++ T
                    = tk T_RBRACKET [93%N] i3' :: rev t' ++ tk T_LBRACKET [91%N] i2' :: tk T_DOUBLE_DOT [46; 46]%N i1' :: T).
    { cbn [rev]. rewrite rev_app_distr. cbn [rev app]. rewrite <- !app_assoc. reflexivity. }
    rewrite Etoks. eapply reachS_trans; [|exact R3]. eapply reachS_trans; [|exact R2]. retext (b ++ [46; 46]%N ++ [91%N] ++ z'' ++ fr). exact R1.
  - constructor. exact HS.
  - cbn [ty tval tk pre post]. apply seg_hd_blank; [exact Hb|]. eexists; eexists. split; [reflexivity | right; left; reflexivity].
Qed.

Lemma l_qt_nil : L_QT [] [].
Proof. intros _ a z a' fr p T Ho Hm Hsc H Hf. runnil H. exists [], p. split; [apply reachS_refl|]. split; [constructor | left; reflexivity]. Qed.
Lemma l_qt_cons g tg q tq : SegT g tg -> L_SegT g tg -> L_QT q tq -> L_QT (g :: q) (tg ++ tq).
Proof.
  intros HG Hg Hq Hff a z a' fr p T Ho Hm Hsc H Hf. cbn [filter_free forallb] in Hff. apply andb_true_iff in Hff as [Hff1 Hff2].
  apply RunT_app in H as (z1 & z2 & a1 & -> & H1 & H2). apply sc_app in Hsc as [Hsc1 Hsc2].
  destruct (proj1 (proj2 (grammar_spelled cfg)) g tg HG a z1 a1 Ho Hm Hsc1 H1) as (-> & _).
  assert (Hf1 : nn_head (z2 ++ fr)).
  { destruct (Hq Hff2 a z2 a' fr p T Ho Hm Hsc2 H2 Hf) as (_ & _ & _ & _ & [-> | Hh]); [exact Hf | apply seg_hd_nn; exact Hh]. }
  destruct (Hg Hff1 a z1 a (z2 ++ fr) p T Ho Hm Hsc1 H1 Hf1) as (t1 & p1 & R1 & HS1 & Hh1).
  destruct (Hq Hff2 a z2 a' fr p1 (rev t1 ++ T) Ho Hm Hsc2 H2 Hf) as (t2 & p2 & R2 & HQ2 & _).
  exists (t1 ++ t2), p2. split; [|split].
  - rewrite rev_app_distr, <- !app_assoc. eapply reachS_trans; [exact R1 | exact R2].
  - constructor; assumption.
  - right. destruct Hh1 as (c & r & -> & Hc). exists c, (r ++ z2). split; [reflexivity | exact Hc].
Qed.

(* --- selectors --- *)
Lemma fol_sel_app b c r : blanks b -> isd c = false -> fol_sel ((b ++ [c]) ++ r).
Proof. intros Hb Hc. rewrite <- app_assoc. apply fol_blank; assumption. Qed.

Lemma l_name t k : (ty t = T_SQ_STRING \/ ty t = T_DQ_STRING) -> decode_string_literal t = Ok k -> L_SelT (SName k) [t].
Proof.
  intros Hty Hd _ a z a' fr p j T Ho Hm Hsc H Hf. runc H k0 a1 b z' Hs Hb Hn Ht HR. runnil HR.
  assert (Hs' : k0 = GBl /\ a1 = a) by (unfold astep in Hs; rewrite Hm in Hs; destruct Hty as [E | E]; rewrite E in Hs; inversion Hs; split; reflexivity).
  destruct Hs' as [-> ->].
  assert (Hscv : sc (tval t)) by (apply (sc_mid (b ++ pre GBl (ty t)) (tval t) (post (ty t) ++ [])); rewrite <- !app_assoc; exact Hsc).
  destruct (decode_reidx t k Hty Ht Hscv Hd) as (q & Hq & Ety & Hlok & Hdec).
  destruct (B_str b q (tval t) fr p [(91%N, j)] T Hb Hq Hlok) as (p' & i' & R). exists [tk (tt_of q) (tval t) i'], p'. split; [|split; [|reflexivity]].
  - cbn [rev app]. rewrite Ety. destruct (qtt_pre q Hq) as [E1 E2]. fold (tt_of q) in E1, E2. rewrite E1, E2. retext (b ++ [q] ++ tval t ++ [q] ++ fr). exact R.
  - apply st_name; [unfold tk, tt_of; cbn [ty]; destruct (N.eqb q 39); [left | right]; reflexivity | apply Hdec].
Qed.
Lemma l_index ds j0 i : int_text_ok ds i -> in_range cfg i = true -> L_SelT (SIndex i) [tk T_INDEX ds j0].
Proof.
  intros Hi Hr _ a z a' fr p j T Ho Hm Hsc H (c & r & -> & Hc). runc H k0 a1 b z' Hs Hb Hn Ht HR. runnil HR. stepM Hs Hm.
  destruct (B_int b ds i c r p [(91%N, j)] T Hb Hi Hc) as (p' & i' & R). exists [tk T_INDEX ds i'], p'. split; [|split; [|reflexivity]].
  - cbn [rev app]. retext (b ++ ds ++ c :: r). exact R.
  - constructor; assumption.
Qed.
Lemma l_wild v i : L_SelT SWild [tk T_WILD v i].
Proof.
  intros _ a z a' fr p j T Ho Hm Hsc H Hf. runc H k0 a1 b z' Hs Hb Hn Ht HR. runnil HR. stepM Hs Hm.
  destruct (B_char b 42 T_WILD fr p [(91%N, j)] T Hb (or_introl (conj eq_refl eq_refl))) as (p' & i' & R). exists [tk T_WILD [42%N] i'], p'. split; [|split; [|reflexivity]].
  - cbn [rev app]. retext (b ++ [42%N] ++ fr). exact R.
  - constructor.
Qed.
Lemma l_filter e t v i : L_SelT (SFilter e) (tk T_FILTER v i :: t).
Proof. intros Hff. discriminate Hff. Qed.

Lemma l_ss_one s t : L_SelT s t -> L_SelsT [s] t.
Proof.
  intros IH Hff a z a' fr p j T Ho Hm Hsc H Hf. cbn [forallb] in Hff. rewrite andb_true_r in Hff.
  destruct (IH Hff a z a' fr p j T Ho Hm Hsc H Hf) as (t' & p' & R & HS & ->). exists t', p'. split; [exact R|]. split; [constructor; exact HS | reflexivity].
Qed.
Lemma l_ss_cons s t v i rest trest : L_SelT s t -> L_SelsT rest trest -> L_SelsT (s :: rest) (t ++ tk T_COMMA v i :: trest).
Proof.
  intros IHs IHr Hff a z a' fr p j T Ho Hm Hsc H Hf. cbn [forallb] in Hff. apply andb_true_iff in Hff as [Hff1 Hff2].
  apply RunT_app in H as (z1 & z2 & a1 & -> & H1 & H2). apply sc_app in Hsc as [Hsc1 Hsc2].
  (* the comma is read from the state the selector leaves, which is a again *)
  assert (Hz2 : exists bc z', z2 = bc ++ [44%N] ++ z' /\ blanks bc /\ RunT a trest z' a' /\ a1 = a).
  { destruct (IHs Hff1 a z1 a1 (44%N :: []) p j T Ho Hm Hsc1 H1 (ex_intro _ 44%N (ex_intro _ [] (conj eq_refl eq_refl)))) as (_ & _ & _ & _ & ->).
    runc H2 k0 a2 bc z' Hs Hbc Hn Ht HR. stepM Hs Hm. exists bc, z'. split; [txt2|]. split; [exact Hbc|]. split; [exact HR | reflexivity]. }
  destruct Hz2 as (bc & z' & -> & Hbc & HR & ->).
  destruct (IHs Hff1 a z1 a ((bc ++ [44%N] ++ z') ++ fr) p j T Ho Hm Hsc1 H1) as (t1 & p1 & R1 & HS1 & _).
  { rewrite <- app_assoc. apply fol_blank; [exact Hbc | reflexivity]. }
  destruct (B_char bc 44 T_COMMA (z' ++ fr) p1 [(91%N, j)] (rev t1 ++ T) Hbc (or_intror (or_introl (conj eq_refl eq_refl)))) as (p2 & i2 & R2).
  do 2 (apply sc_app in Hsc2 as [_ Hsc2]).
  destruct (IHr Hff2 a z' a' fr p2 j (tk T_COMMA [44%N] i2 :: rev t1 ++ T) Ho Hm Hsc2 HR Hf) as (t2 & p3 & R3 & HS2 & ->).
  exists (t1 ++ tk T_COMMA [44%N] i2 :: t2), p3. split; [|split; [constructor; assumption | reflexivity]].
  rewrite rev_snoc_app. eapply reachS_trans; [rewrite <- app_assoc; exact R1|]. eapply reachS_trans; [|exact R3]. retext (bc ++ [44%N] ++ z' ++ fr). exact R2.
Qed.

(* --- slices --- *)
Lemma l_optI o t a z a' fr p bs T : OptI cfg o t -> am a = MBrk -> RunT a t z a' -> fol_sel fr ->
  exists t' p', reachS SBracket (C0 (z ++ fr) p bs T) SBracket (C0 fr p' bs (rev t' ++ T)) /\ OptI cfg o t' /\ a' = a.
Proof.
  intros Ho Hm H (c & r & -> & Hc). destruct o as [x|]; cbn [OptI] in Ho.
  - destruct Ho as (ds & j & -> & Hi & Hr). runc H k0 a1 b z' Hs Hb Hn Ht HR. runnil HR. stepM Hs Hm.
    destruct (B_int b ds x c r p bs T Hb Hi Hc) as (p' & i' & R). exists [tk T_INDEX ds i'], p'. split; [|split; [|reflexivity]].
    + cbn [rev app]. retext (b ++ ds ++ c :: r). exact R.
    + exists ds, i'. split; [reflexivity|]. split; assumption.
  - subst t. runnil H. exists [], p. split; [apply reachS_refl|]. split; reflexivity.
Qed.
Definition colon_hd (z : list N) : Prop := z = [] \/ exists b r, z = b ++ 58%N :: r /\ blanks b.
Lemma fol_colon_hd z fr : colon_hd z -> fol_sel fr -> fol_sel (z ++ fr).
Proof. intros [-> | (b & r & -> & Hb)] Hf; [exact Hf|]. rewrite <- app_assoc. apply fol_blank; [exact Hb | reflexivity]. Qed.

Lemma l_stepT c t a z a' fr p bs T : StepT cfg c t -> am a = MBrk -> RunT a t z a' -> fol_sel fr ->
  exists t' p', reachS SBracket (C0 (z ++ fr) p bs T) SBracket (C0 fr p' bs (rev t' ++ T)) /\ StepT cfg c t' /\ a' = a /\ colon_hd z.
Proof.
  intros [[-> ->] | (v & i & t0 & -> & Ho)] Hm H Hf.
  - runnil H. exists [], p. split; [apply reachS_refl|]. split; [left; split; reflexivity|]. split; [reflexivity | left; reflexivity].
  - destruct (run_colon a v i t0 z a' Hm H) as (b & z' & -> & Hb & HR).
    destruct (B_char b 58 T_COLON (z' ++ fr) p bs T Hb (or_intror (or_intror (conj eq_refl eq_refl)))) as (p1 & i1 & R1).
    destruct (l_optI c t0 a z' a' fr p1 bs (tk T_COLON [58%N] i1 :: T) Ho Hm HR Hf) as (t1 & p2 & R2 & Ho' & ->).
    exists (tk T_COLON [58%N] i1 :: t1), p2. split; [|split; [|split]].
    + replace (rev (tk T_COLON [58%N] i1 :: t1) ++ T) with (rev t1 ++ tk T_COLON [58%N] i1 :: T) by (cbn [rev]; rewrite <- app_assoc; reflexivity).
      eapply reachS_trans; [|exact R2]. retext (b ++ [58%N] ++ z' ++ fr). exact R1.
    + right. exists [58%N], i1, t1. split; [reflexivity | exact Ho'].
    + reflexivity.
    + right. exists b, z'. split; [reflexivity | exact Hb].
Qed.

Lemma l_slice x y c ta tb tc v1 i1 : OptI cfg x ta -> OptI cfg y tb -> StepT cfg c tc -> L_SelT (SSlice x y c) (ta ++ tk T_COLON v1 i1 :: tb ++ tc).
Proof.
  intros Hx Hy Hc _ a z a' fr p j T Ho Hm Hsc H Hf. apply RunT_app in H as (za & z2 & a1 & -> & H1 & H2).
  destruct (run_optI cfg x ta a za a1 Hx Hm H1) as [-> _].
  destruct (run_colon a v1 i1 (tb ++ tc) z2 a' Hm H2) as (b2 & z3 & -> & Hb2 & H3). apply RunT_app in H3 as (zb & zc & a2 & -> & H4 & H5).
  destruct (run_optI cfg y tb a zb a2 Hy Hm H4) as [-> _].
  (* last part first, for the follow conditions *)
  assert (Hch : colon_hd zc) by (destruct (l_stepT c tc a zc a' fr 0 [] [] Hc Hm H5 Hf) as (_ & _ & _ & _ & _ & Hh); exact Hh).
  destruct (l_optI x ta a za a ((b2 ++ [58%N] ++ zb ++ zc) ++ fr) p [(91%N, j)] T Hx Hm H1) as (t1 & p1 & R1 & Hx' & _).
  { rewrite <- app_assoc. apply fol_blank; [exact Hb2 | reflexivity]. }
  destruct (B_char b2 58 T_COLON ((zb ++ zc) ++ fr) p1 [(91%N, j)] (rev t1 ++ T) Hb2 (or_intror (or_intror (conj eq_refl eq_refl)))) as (p2 & i2 & R2).
  destruct (l_optI y tb a zb a (zc ++ fr) p2 [(91%N, j)] (tk T_COLON [58%N] i2 :: rev t1 ++ T) Hy Hm H4 (fol_colon_hd zc fr Hch Hf)) as (t2 & p3 & R3 & Hy' & _).
  destruct (l_stepT c tc a zc a' fr p3 [(91%N, j)] (rev t2 ++ tk T_COLON [58%N] i2 :: rev t1 ++ T) Hc Hm H5 Hf) as (t3 & p4 & R4 & Hc' & -> & _).
  exists (t1 ++ tk T_COLON [58%N] i2 :: t2 ++ t3), p4. split; [|split; [constructor; assumption | reflexivity]].
  assert (Etoks : rev (t1 ++ tk T_COLON [58%N] i2 :: t2 ++ t3) ++ T = rev t3 ++ rev t2 ++ tk T_COLON [58%N] i2 :: rev t1 ++ T).
  { rewrite rev_snoc_app, rev_app_distr, <- !app_assoc. reflexivity. }
  rewrite Etoks. eapply reachS_trans; [rewrite <- app_assoc; exact R1|]. eapply reachS_trans; [|exact R4]. eapply reachS_trans; [|exact R3].
  rewrite <- !app_assoc. rewrite <- !app_assoc in R2. retext (b2 ++ [58%N] ++ zb ++ zc ++ fr). exact R2.
Qed.

Theorem lex_all_ff :
  (forall q t, QT q t -> L_QT q t) /\ (forall g t, SegT g t -> L_SegT g t) /\ (forall ss t, SelsT ss t -> L_SelsT ss t) /\ (forall s t, SelT s t -> L_SelT s t) /\
  (forall (k : Z) (e : expr) (t : list token), ET cfg k e t -> True) /\ (forall (e : expr) (t : list token), CT cfg e t -> True) /\
  (forall (w : ty3) (e : expr) (t : list token), TT cfg w e t -> True) /\ (forall (tys : list ty3) (args : list expr) (t : list token), ArgsT cfg tys args t -> True) /\
  (forall (w : ty3) (e : expr) (t : list token), ArgT cfg w e t -> True).
Proof.
  apply grammar_mutind; try (intros; exact I).
  - exact l_qt_nil.
  - intros g tg q tq HG Hg _ Hq. apply l_qt_cons; assumption.
  - exact l_sg_prop.
  - exact l_sg_wild.
  - intros ss t v1 i1 v2 i2 HS H. apply l_sg_br; assumption.
  - exact l_sg_dprop.
  - exact l_sg_dwild.
  - intros ss t v0 i0 v1 i1 v2 i2 HS H. apply l_sg_dbr; assumption.
  - intros s t _ H. apply l_ss_one; exact H.
  - intros s t v i rest trest _ H _ Hr. apply l_ss_cons; assumption.
  - exact l_name.
  - exact l_index.
  - exact l_slice.
  - exact l_wild.
  - intros e t v i _ _. apply l_filter.
Qed.
End FF.

(* EVERY SPELLING OF A FILTER-FREE QUERY COMPILES, TO THAT QUERY.  t: any token sequence the typed token grammar derives for q; z: any text that
   spells t in the sense of Proofs/LexSpell.v (blanks wherever the abstract machine allows them, "." or ".." shorthand or brackets, either
   quote style around any body the lexer's string states accept, the tokens' own texts).  Then compile("$" ++ z) = q. *)
Theorem spelled_compiles_ff cfg q t z a' : QT cfg q t -> filter_free q = true -> sc z -> RunT a0 t z a' -> m_compile cfg (36%N :: z) = Ok q.
Proof.
  intros HQ Hff Hsc HR.
  destruct (proj1 (lex_all_ff cfg) q t HQ Hff a0 z a' [] 1 [tk T_ROOT [36%N] 0] okS_a0 eq_refl Hsc HR I) as (t' & p' & R & HQ' & _). rewrite app_nil_r in R.
  assert (R0 : reachS SRoot (lexer_init (36%N :: z)) SSegment (C0 [] p' [] (rev t' ++ [tk T_ROOT [36%N] 0]))).
  { eapply reachS_trans; [apply reachS_step; apply (Requery.step_root 0 [] [] z)|]. exact R. }
  destruct (reachS_stop _ _ _ _ _ R0 (Requery.step_seg_eof 0 [] [] [] p' _)) as [n Hn].
  assert (Etok : m_tokenize (36%N :: z) = Ok (tk T_ROOT [36%N] 0 :: t' ++ [tk T_EOF [] p'])).
  { unfold m_tokenize. destruct (lex_run_of_steps n _ _ _ Hn (lex_fuel (36%N :: z))) as [E | E]; [|exfalso; exact (lex_run_init_terminates _ E)].
    rewrite E. cbn [bind l_toks l_bs LX]. change (ttype_eqb (ty (tk T_EOF [] p')) T_ERROR) with false. cbv iota. cbn [rev]. rewrite rev_app_distr, rev_involutive. reflexivity. }
  unfold m_compile. rewrite Etok. cbn [bind]. destruct (parse_complete cfg q t' [36%N] 0 [] p' HQ') as [s Hs]. rewrite Hs. reflexivity.
Qed.
Print Assumptions spelled_compiles_ff.

(* the converse, for every query (Proofs/LexSpell.v + Proofs/LexShape.v): what compiles is spelled *)
Theorem compiles_spelled cfg text q : m_compile cfg text = Ok q -> exists t z a', text = 36%N :: z /\ QT cfg q t /\ RunT a0 t z a'.
Proof.
  intros Hc. destruct (compile_sound_tokens cfg text q Hc) as (root & t & e & Htok & Hroot & Hwf & HQ).
  destruct (tokenize_spelled text _ Htok) as (r & ts & y & a & E & _ & -> & HRun). inversion E; subst r ts. clear E.
  destruct (Run_RunT _ _ _ _ _ HRun) as (z & HT & Ez). rewrite lastT_snoc, (wf_last t e Hwf) in Ez. cbn [post app] in Ez. rewrite app_nil_r in Ez. subst z.
  apply RunT_app in HT as (z1 & z2 & a1 & -> & H1 & H2).
  apply RunT_cons_inv in H2 as (k0 & a2 & b & z' & Hs & Hb & Hn & Ht & HR & ->). rewrite (wf_last t e Hwf) in Hs, Ht. cbn [tshape] in Ht.
  assert (Hk : k0 = GNone).
  { unfold astep in Hs. destruct (am a1); cbn in Hs; try discriminate Hs. inversion Hs; reflexivity. }
  subst k0. apply RunT_nil_inv in HR as [-> _]. rewrite (Hn eq_refl), Ht, (wf_last t e Hwf). cbn [pre post app]. rewrite app_nil_r.
  exists t, z1, a1. split; [reflexivity|]. split; assumption.
Qed.

(* so, for filter-free queries, compile() accepts EXACTLY the spellings, and returns the query spelled *)
Theorem compile_iff_spelled_ff cfg q z : filter_free q = true -> sc z ->
  (m_compile cfg (36%N :: z) = Ok q <-> exists t a', QT cfg q t /\ RunT a0 t z a').
Proof.
  intros Hff Hsc. split.
  - intros Hc. destruct (compiles_spelled cfg _ q Hc) as (t & z' & a' & E & HQ & HR). inversion E; subst z'. exists t, a'. split; assumption.
  - intros (t & a' & HQ & HR). exact (spelled_compiles_ff cfg q t z a' HQ Hff Hsc HR).
Qed.
Print Assumptions compile_iff_spelled_ff.
