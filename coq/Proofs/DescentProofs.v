(* C18: the depth-limited traversal completes exactly when no chain of more than `limit` nested containers
   starts at the root; self-referential data always has such a chain. *)
From JP Require Import Base.Json Model.Descent Model.Eval Proofs.EvalProofs.

Lemma flat_mapM_ok_or_rec {A B} (f : A -> result (list B)) l :
  (forall x, In x l -> (exists r, f x = Ok r) \/ f x = Err ERecursion None) ->
  (exists r, flat_mapM f l = Ok r) \/ flat_mapM f l = Err ERecursion None.
Proof.
  induction l as [|x l IH]; intros H; cbn [flat_mapM]; [left; eexists; reflexivity|].
  destruct (H x (or_introl eq_refl)) as [[r Hr]|Hr]; rewrite Hr; cbn [bind]; [|right; reflexivity].
  destruct IH as [[r' Hr']|Hr']; [intros y Hy; apply H; right; exact Hy | |]; rewrite Hr'; cbn [bind]; [left; eexists; reflexivity | right; reflexivity].
Qed.

Lemma flat_mapM_err {A B} (f : A -> result (list B)) l x :
  (forall y, In y l -> (exists r, f y = Ok r) \/ f y = Err ERecursion None) ->
  In x l -> f x = Err ERecursion None -> flat_mapM f l = Err ERecursion None.
Proof.
  induction l as [|y l IH]; intros H Hin Hx; [destruct Hin|]. cbn [flat_mapM].
  destruct Hin as [->|Hin]; [rewrite Hx; reflexivity|].
  destruct (H y (or_introl eq_refl)) as [[r Hr]|Hr]; rewrite Hr; cbn [bind]; [|reflexivity].
  rewrite (IH (fun z Hz => H z (or_intror Hz)) Hin Hx). reflexivity.
Qed.

Lemma gvisit_ok_or_rec g : forall budget loc id, (exists r, gvisit g budget loc id = Ok r) \/ gvisit g budget loc id = Err ERecursion None.
Proof.
  induction budget as [|b IH]; intros loc id; cbn [gvisit]; [right; reflexivity|].
  destruct (flat_mapM_ok_or_rec (fun kc => if is_cont (cell_of g (snd kc)) then gvisit g b (loc ++ [fst kc]) (snd kc) else Ok [])
                                (kids_of (cell_of g id))) as [[r Hr]|Hr].
  - intros kc _. destruct (is_cont (cell_of g (snd kc))); [apply IH | left; eexists; reflexivity].
  - rewrite Hr. left. eexists. reflexivity.
  - rewrite Hr. right. reflexivity.
Qed.

(* a chain of budget+1 containers makes the traversal raise JSONPathRecursionError ... *)
Theorem gvisit_raises g : forall budget loc id, cchain g id (S budget) -> gvisit g budget loc id = Err ERecursion None.
Proof.
  induction budget as [|b IH]; intros loc id H; cbn [gvisit]; [reflexivity|].
  inversion H as [|id' k kid n Hin Hc Hch]; subst.
  rewrite (flat_mapM_err _ _ (k, kid)); [reflexivity | | exact Hin |].
  - intros kc _. destruct (is_cont (cell_of g (snd kc))); [apply gvisit_ok_or_rec | left; eexists; reflexivity].
  - cbn [snd fst]. assert (Hk : is_cont (cell_of g kid) = true) by (inversion Hch; assumption). rewrite Hk. apply IH. exact Hch.
Qed.

(* ... and without such a chain it completes *)
Theorem gvisit_completes g : forall budget loc id, is_cont (cell_of g id) = true -> ~ cchain g id (S budget) ->
  exists r, gvisit g budget loc id = Ok r.
Proof.
  induction budget as [|b IH]; intros loc id Hc Hn.
  - exfalso. apply Hn. constructor. exact Hc.
  - cbn [gvisit].
    assert (Hk : forall kc, In kc (kids_of (cell_of g id)) ->
                 exists r, (if is_cont (cell_of g (snd kc)) then gvisit g b (loc ++ [fst kc]) (snd kc) else Ok []) = Ok r).
    { intros [k kid] Hin. cbn [snd fst]. destruct (is_cont (cell_of g kid)) eqn:Ek; [|eexists; reflexivity].
      apply IH; [exact Ek|]. intros Hch. apply Hn. eapply CC_step; eassumption. }
    assert (Hall : exists r, flat_mapM (fun kc => if is_cont (cell_of g (snd kc)) then gvisit g b (loc ++ [fst kc]) (snd kc) else Ok [])
                                       (kids_of (cell_of g id)) = Ok r).
    { revert Hk. generalize (kids_of (cell_of g id)) as l. induction l as [|x l IHl]; intros Hk; cbn [flat_mapM]; [eexists; reflexivity|].
      destruct (Hk x (or_introl eq_refl)) as [r Hr]. rewrite Hr. cbn [bind].
      destruct (IHl (fun y Hy => Hk y (or_intror Hy))) as [r' Hr']. rewrite Hr'. cbn [bind]. eexists. reflexivity. }
    destruct Hall as [r Hr]. rewrite Hr. eexists. reflexivity.
Qed.

(* a cell that can reach itself through containers has chains of every length *)
Inductive reaches (g : graph) : nat -> nat -> Prop :=
| R_kid id k kid : In (k, kid) (kids_of (cell_of g id)) -> is_cont (cell_of g id) = true -> reaches g id kid
| R_trans a b c : reaches g a b -> reaches g b c -> reaches g a c.

Lemma cchain_prepend g a b : reaches g a b -> forall n, cchain g b n -> exists m, (n < m)%nat /\ cchain g a m.
Proof.
  induction 1 as [id k kid Hin Hc | a b c _ IH1 _ IH2]; intros n Hn.
  - exists (S n). split; [lia|]. eapply CC_step; eassumption.
  - destruct (IH2 n Hn) as [m [Hm Hcm]]. destruct (IH1 m Hcm) as [m' [Hm' Hcm']]. exists m'. split; [lia | exact Hcm'].
Qed.

Lemma cchain_shorter g : forall n id, cchain g id (S n) -> forall m, (1 <= m <= S n)%nat -> cchain g id m.
Proof.
  induction n as [|n IH]; intros id H m Hm.
  - assert (m = 1%nat) by lia. subst. exact H.
  - inversion H as [|id' k kid n' Hin Hc Hch]; subst. destruct m as [|[|m]]; [lia | constructor; exact Hc |].
    eapply CC_step; [exact Hin | exact Hc | apply IH; [exact Hch | lia]].
Qed.

Lemma reaches_cont g a b : reaches g a b -> is_cont (cell_of g a) = true.
Proof. induction 1; assumption. Qed.

Theorem cyclic_has_long_chains g id : reaches g id id -> forall n, (1 <= n)%nat -> cchain g id n.
Proof.
  intros Hr. assert (Hc : is_cont (cell_of g id) = true) by (eapply reaches_cont; exact Hr).
  assert (Hbig : forall n, exists m, (n <= m)%nat /\ cchain g id m).
  { induction n as [|n [m [Hm Hcm]]]; [exists 1%nat; split; [lia | constructor; exact Hc]|].
    destruct (cchain_prepend g id id Hr m Hcm) as [m' [Hm' Hcm']]. exists m'. split; [lia | exact Hcm']. }
  intros n Hn. destruct (Hbig n) as [m [Hm Hcm]]. destruct m as [|m]; [lia|]. eapply cchain_shorter; [exact Hcm | lia].
Qed.

Theorem cyclic_raises g limit id : reaches g id id -> forall loc, gvisit g limit loc id = Err ERecursion None.
Proof. intros Hr loc. apply gvisit_raises. apply cyclic_has_long_chains; [exact Hr | lia]. Qed.

(* --- on trees: the converse of visit_spec ------------------------------------------------------- *)
Lemma m_visit_ok_or_rec limit : forall v d loc, (exists r, m_visit limit d loc v = Ok r) \/ m_visit limit d loc v = Err ERecursion None.
Proof.
  induction v as [| b | n | s | l IH | m IH] using json_ind'; intros d loc; cbn [m_visit];
    destruct (limit <? d)%nat; try (right; reflexivity); try (left; eexists; reflexivity).
  - match goal with |- context [bind (?g 0 l) _] => assert (H : forall i, (exists r, g i l = Ok r) \/ g i l = Err ERecursion None) end.
    { induction IH as [|x l Px _ IHl]; intros i; [left; eexists; reflexivity|].
      destruct (is_container x).
      - destruct (Px (S d) (loc ++ [KIdx i])) as [[r Hr]|Hr]; rewrite Hr; cbn [bind]; [|right; reflexivity].
        destruct (IHl (i + 1)) as [[r' Hr']|Hr']; rewrite Hr'; cbn [bind]; [left; eexists; reflexivity | right; reflexivity].
      - cbn [bind]. destruct (IHl (i + 1)) as [[r' Hr']|Hr']; rewrite Hr'; cbn [bind]; [left; eexists; reflexivity | right; reflexivity]. }
    destruct (H 0) as [[r Hr]|Hr]; rewrite Hr; cbn [bind]; [left; eexists; reflexivity | right; reflexivity].
  - match goal with |- context [bind (?g m) _] => assert (H : (exists r, g m = Ok r) \/ g m = Err ERecursion None) end.
    { induction IH as [|[k x] m Px _ IHm]; [left; eexists; reflexivity|]. cbn [snd] in Px.
      destruct (is_container x).
      - destruct (Px (S d) (loc ++ [KName k])) as [[r Hr]|Hr]; rewrite Hr; cbn [bind]; [|right; reflexivity].
        destruct IHm as [[r' Hr']|Hr']; rewrite Hr'; cbn [bind]; [left; eexists; reflexivity | right; reflexivity].
      - cbn [bind]. destruct IHm as [[r' Hr']|Hr']; rewrite Hr'; cbn [bind]; [left; eexists; reflexivity | right; reflexivity]. }
    destruct H as [[r Hr]|Hr]; rewrite Hr; cbn [bind]; [left; eexists; reflexivity | right; reflexivity].
Qed.

Lemma max_arr_member l : (1 <= fold_right (fun x acc => Nat.max (nesting x) acc) O l)%nat ->
  exists x, In x l /\ nesting x = fold_right (fun x acc => Nat.max (nesting x) acc) O l.
Proof.
  induction l as [|y l IH]; cbn [fold_right]; intros H; [lia|].
  destruct (Nat.max_spec (nesting y) (fold_right (fun x acc => Nat.max (nesting x) acc) O l)) as [[Hlt E]|[Hle E]]; rewrite E in *.
  - destruct (IH H) as [x [Hx Hn]]. exists x. split; [right; exact Hx | exact Hn].
  - exists y. split; [left; reflexivity | reflexivity].
Qed.
Lemma max_obj_member (m : list (str * json)) : (1 <= fold_right (fun kv acc => Nat.max (nesting (snd kv)) acc) O m)%nat ->
  exists k x, In (k, x) m /\ nesting x = fold_right (fun kv acc => Nat.max (nesting (snd kv)) acc) O m.
Proof.
  induction m as [|[k y] m IH]; cbn [fold_right snd]; intros H; [lia|].
  destruct (Nat.max_spec (nesting y) (fold_right (fun kv acc => Nat.max (nesting (snd kv)) acc) O m)) as [[Hlt E]|[Hle E]]; rewrite E in *.
  - destruct (IH H) as [k' [x [Hx Hn]]]. exists k', x. split; [right; exact Hx | exact Hn].
  - exists k, y. split; [left; reflexivity | reflexivity].
Qed.

Lemma nesting_pos_container x : (1 <= nesting x)%nat -> is_container x = true.
Proof. destruct x; cbn [nesting]; intros H; try lia; reflexivity. Qed.

Lemma go_arr_err (F : Z -> json -> result (list node)) l x :
  (forall i y, (exists r, F i y = Ok r) \/ F i y = Err ERecursion None) ->
  In x l -> (forall i, F i x = Err ERecursion None) ->
  forall i, (fix go (i : Z) (l : list json) : result (list node) :=
               match l with [] => Ok [] | y :: ys => do a <- F i y; do b <- go (i + 1) ys; Ok (a ++ b) end) i l = Err ERecursion None.
Proof.
  intros Htot. induction l as [|y l IH]; intros Hin Hx i; [destruct Hin|].
  destruct Hin as [->|Hin]; [rewrite Hx; reflexivity|].
  destruct (Htot i y) as [[r Hr]|Hr]; rewrite Hr; cbn [bind]; [|reflexivity].
  rewrite (IH Hin Hx (i + 1)). reflexivity.
Qed.
Lemma go_obj_err (F : str -> json -> result (list node)) (m : list (str * json)) k x :
  (forall k' y, (exists r, F k' y = Ok r) \/ F k' y = Err ERecursion None) ->
  In (k, x) m -> F k x = Err ERecursion None ->
  (fix go (m : list (str * json)) : result (list node) :=
     match m with [] => Ok [] | (k', y) :: ys => do a <- F k' y; do b <- go ys; Ok (a ++ b) end) m = Err ERecursion None.
Proof.
  intros Htot. induction m as [|[k' y] m IH]; intros Hin Hx; [destruct Hin|].
  destruct Hin as [E|Hin]; [inversion E; subst; rewrite Hx; reflexivity|].
  destruct (Htot k' y) as [[r Hr]|Hr]; rewrite Hr; cbn [bind]; [|reflexivity].
  rewrite (IH Hin Hx). reflexivity.
Qed.

(* data nested deeper than the limit raises JSONPathRecursionError *)
Theorem visit_raises limit : forall v d loc, is_container v = true -> (limit < d + nesting v - 1)%nat ->
  m_visit limit d loc v = Err ERecursion None.
Proof.
  induction v as [| b | n | s | l IH | m IH] using json_ind'; intros d loc Hc Hdeep; try discriminate; cbn [m_visit];
    destruct (limit <? d)%nat eqn:Ed; try reflexivity; apply Nat.ltb_ge in Ed.
  - cbn [nesting] in Hdeep.
    destruct (max_arr_member l ltac:(lia)) as [x [Hx Hn]].
    assert (Hxc : is_container x = true) by (apply nesting_pos_container; lia).
    rewrite Forall_forall in IH.
    rewrite (go_arr_err (fun i y => if is_container y then m_visit limit (S d) (loc ++ [KIdx i]) y else Ok []) l x); [reflexivity | | exact Hx |].
    + intros i y. destruct (is_container y); [apply m_visit_ok_or_rec | left; eexists; reflexivity].
    + intros i. rewrite Hxc. apply (IH x Hx); [exact Hxc | lia].
  - cbn [nesting] in Hdeep.
    destruct (max_obj_member m ltac:(lia)) as [k [x [Hx Hn]]].
    assert (Hxc : is_container x = true) by (apply nesting_pos_container; lia).
    rewrite Forall_forall in IH.
    rewrite (go_obj_err (fun k' y => if is_container y then m_visit limit (S d) (loc ++ [KName k']) y else Ok []) m k x); [reflexivity | | exact Hx |].
    + intros k' y. destruct (is_container y); [apply m_visit_ok_or_rec | left; eexists; reflexivity].
    + rewrite Hxc. pose proof (IH (k, x) Hx) as IHx. cbn [snd] in IHx. apply IHx; [exact Hxc | lia].
Qed.
