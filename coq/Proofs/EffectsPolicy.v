(* Which stores and mutations the purity / independence properties (C14, C16) tolerate.
   Module numbers are the indices of tools/pygen/gen_effects.py SOURCES (checked below against Gen.g_modules). *)
From JP Require Import Base.Prelude Model.EffectLang.

Definition scratch_module (m : nat) : bool := (m =? 8)%nat || (m =? 9)%nat || (m =? 10)%nat.  (* lex, tokens, parse: objects created per compile() *)
Definition s__init__ : str := [95; 95; 105; 110; 105; 116; 95; 95]%N.
Definition s_setup : str := [115;101;116;117;112;95;102;117;110;99;116;105;111;110;95;101;120;116;101;110;115;105;111;110;115]%N.
Definition s_token : str := [116; 111; 107; 101; 110]%N.
Definition s_DEFAULT_ENV : str := [68; 69; 70; 65; 85; 76; 84; 95; 69; 78; 86]%N.
Definition s_arg_types : str := [97; 114; 103; 95; 116; 121; 112; 101; 115]%N.
Definition s_PRECEDENCES : str := [80; 82; 69; 67; 69; 68; 69; 78; 67; 69; 83]%N.
Definition s_BINARY_OPERATORS : str := [66;73;78;65;82;89;95;79;80;69;82;65;84;79;82;83]%N.

(* statements at module level run once, at import, before any call of the API and with no access to any caller's data: filling a table there
   (T = {...}; T.update(...)) is initialisation, not state.  What matters is that no FUNCTION stores into such a table: [untouched] below. *)
Definition s_module : str := [60; 109; 111; 100; 117; 108; 101; 62]%N.      (* "<module>" *)
Definition at_import (e : effect) : bool := str_eqb (e_fn e) s_module.

Definition allowed (e : effect) : bool :=
  if at_import e then true else
  match e_kind e, e_root e with
  | KGlobal, _ => false
  | KDecor, _ => false                       (* e.g. functools.lru_cache: hidden state *)
  | _, RGlobal => false                      (* store into a module-level object *)
  | _, RExpr => false
  | _, RAlias => false                       (* mutation through a name that may alias caller data *)
  | _, RLocal => true                        (* a container built in this very call *)
  | _, RParam => (e_mod e =? 8)%nat          (* the lexer's state functions mutate the Lexer they are given; nothing else may *)
  | KAttr, RExc => str_eqb (e_what e) s_token   (* err.token = self.token on the exception being re-raised *)
  | _, RExc => false
  | _, RSelf => scratch_module (e_mod e) || str_eqb (e_fn e) s__init__
                || ((e_mod e =? 1)%nat && str_eqb (e_fn e) s_setup)
  end.

Definition s_NOTHING : str := [78; 79; 84; 72; 73; 78; 71]%N.
Definition s_factory : str := [108;101;120;95;115;116;114;105;110;103;95;102;97;99;116;111;114;121;40]%N.   (* "lex_string_factory(" *)
Fixpoint prefix_of (p s : str) : bool :=
  match p with [] => true | c :: p' => match s with d :: s' => N.eqb c d && prefix_of p' s' | [] => false end end.

Definition allowed_binding (b : binding) : bool :=
  ((b_mod b =? 0)%nat && str_eqb (b_name b) s_DEFAULT_ENV)
  || ((b_mod b =? 5)%nat && str_eqb (b_name b) s_NOTHING)           (* the stateless NOTHING singleton (__slots__ = ()) *)
  || ((b_mod b =? 8)%nat && prefix_of s_factory (b_value b))        (* the four string-scanning state functions (closures) *)
  || str_eqb (b_name b) s_arg_types
  || ((b_mod b =? 10)%nat && (str_eqb (b_name b) s_PRECEDENCES || str_eqb (b_name b) s_BINARY_OPERATORS)).

(* A module- or class-level container that no store and no mutator call inside any function of the package mentions is a
   constant table, whatever its name: nothing can flow through it. *)
Fixpoint infix_of (p s : str) : bool :=
  prefix_of p s || match s with [] => false | _ :: s' => infix_of p s' end.
Definition untouched (es : list effect) (b : binding) : bool :=
  match b_name b with [] => false | _ => negb (existsb (fun e => negb (at_import e) && infix_of (b_name b) (e_what e)) es) end.

Definition pure_package (es : list effect) (bs : list binding) : bool :=
  forallb allowed es && forallb (fun b => allowed_binding b || untouched es b) bs.
