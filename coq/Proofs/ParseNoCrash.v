(* C13, parser part: given tokens whose string literals decode without an IndexError (which C09_decode shows for
   every token the lexer emits), no function of the parser lets an exception other than a JSONPathError escape:
   the KeyErrors of the dispatch tables are raised only below parse_filter_expression, which catches them. *)
From JP Require Import Base.Json Model.Tokens Model.Ast Model.Parse Proofs.ParseInv.

Section NoCrash.
Variable cfg : envcfg.
Variable toks : list token.
Notation SInv := (SInv toks).
Notation SInv0 := (SInv0 toks).

Definition TokOk (t : token) : Prop :=
  (ty t = T_SQ_STRING \/ ty t = T_DQ_STRING) -> match decode_string_literal t with Crash _ | OutOfFuel => False | _ => True end.
Hypothesis Htoks : Forall TokOk toks.

(* al = true: a KeyError may escape (it will be caught by parse_filter_expression above); al = false: nothing escapes *)
Definition gk (al : bool) {A} (r : pres A) : Prop :=
  match r with
  | POk _ s' => SInv s'
  | PErr _ _ => True
  | PCrash x s' => al = true /\ x = XKeyError /\ SInv s'
  | PFuel => True
  end.
Lemma gk_mono {A} (r : pres A) : gk false r -> gk true r.
Proof. destruct r; cbn; auto. intros [H _]; discriminate. Qed.
Lemma gk_bind al {A B} (r : pres A) (f : A -> stream -> pres B) :
  gk al r -> (forall a s, SInv s -> gk al (f a s)) -> gk al (pbind r f).
Proof. destruct r; cbn [gk pbind]; intros H Hf; auto. Qed.
Lemma gk_err_cur al {A} c s : gk al (@err_cur A c s). Proof. exact I. Qed.
Lemma gk_err_peek al {A} c s : gk al (@err_peek A c s). Proof. exact I. Qed.

Lemma cur_tokok s : SInv s -> TokOk (cur s).
Proof. intros [Hin _ _]. unfold view in Hin. inversion Hin; subst. rewrite Forall_forall in Htoks. apply Htoks. assumption. Qed.

Lemma cur_adv_after_peek s : SInv s -> cur (adv (after_peek s)) = fst (s_peek s).
Proof.
  intros H. unfold after_peek. rewrite peek_eq. cbn [snd fst]. destruct (sinv0_next toks s H) as [_ E].
  set (s1 := snd (s_next s)) in *. set (c0 := fst (s_next s)). unfold adv, s_push. rewrite E. cbn [app].
  unfold s_next at 1. cbn [pushed cur snd]. reflexivity.
Qed.

Ltac s_inv := first [ assumption | apply (sinv0_sinv toks); s_inv0 | apply (sinv_adv toks); s_inv | apply (sinv_after_peek toks); s_inv ]
with s_inv0 := first [ assumption | apply (sinv0_adv toks); s_inv ].

Lemma gk_literal s : SInv s -> gk true (p_literal s).
Proof.
  intros H. pose proof (cur_tokok s H) as Ht. unfold TokOk in Ht. unfold p_literal. cbv zeta.
  destruct (ty (cur s)) eqn:Ety; try (cbn [gk]; first [exact H | auto]).
  all: try (specialize (Ht ltac:(auto)); destruct (decode_string_literal (cur s)); cbn [gk]; first [exact H | exact I | destruct Ht]).
  all: repeat match goal with
       | |- gk _ (match ?x with _ => _ end) => destruct x
       | |- gk _ (if ?x then _ else _) => destruct x
       end; cbn [gk]; first [exact H | exact I].
Qed.

Lemma gk_slice s : SInv s -> gk false (p_slice cfg s).
Proof.
  intros H. pose proof (good_slice cfg toks s H) as G. destruct (p_slice cfg s) eqn:E; cbn [good gk] in *; try exact I.
  - destruct G; assumption.
  - (* p_slice never crashes: it has no crash site *) exfalso. revert E. unfold p_slice.
    destruct (maybe_index_cases s) as [E1 | [E1 | E1]]; rewrite E1; cbn [pbind]; unfold err_cur; try discriminate; cbv zeta beta iota.
    all: repeat match goal with
         | |- context [maybe_index ?x] => let E2 := fresh "E2" in destruct (maybe_index_cases x) as [E2 | [E2 | E2]]; rewrite E2; cbn [pbind]; unfold err_cur; cbv beta iota zeta
         | |- context [if ?b then _ else _] => destruct b
         end; try discriminate.
    all: cbn [pbind]; cbv beta iota zeta; repeat match goal with |- context [if ?b then _ else _] => destruct b end; discriminate.
Qed.

Definition QN (f : nat) : Prop :=
  (forall inf s, SInv0 s -> gk false (p_query cfg f inf s)) /\
  (forall s, SInv s -> gk false (p_selectors cfg f s)) /\
  (forall s, SInv s -> gk false (p_bracket_loop cfg f s)) /\
  (forall s, SInv s -> gk false (p_filter_selector cfg f s)) /\
  (forall prec s, SInv s -> gk false (p_fexpr cfg f prec s)) /\
  (forall prec lhs s, SInv s -> gk false (p_fexpr_loop cfg f prec lhs s)) /\
  (forall s, SInv s -> gk true (p_primary cfg f s)) /\
  (forall lhs s, SInv s -> gk true (p_infix cfg f lhs s)) /\
  (forall lhs s, SInv s -> binary_operator (ty (cur s)) <> None -> gk false (p_infix cfg f lhs s)) /\
  (forall s, SInv s -> gk true (p_grouped cfg f s)) /\
  (forall e s, SInv s -> gk true (p_grouped_loop cfg f e s)) /\
  (forall s, SInv s -> gk false (p_prefix cfg f s)) /\
  (forall s, SInv s -> gk true (p_function cfg f s)) /\
  (forall s, SInv s -> gk true (p_args_loop cfg f s)) /\
  (forall e s, SInv s -> gk false (p_arg_infix_loop cfg f e s)).

Ltac leafk := cbn [gk]; first [ exact I | s_inv | apply (sinv_push_cur toks); s_inv0 | (split; [reflexivity | split; [reflexivity | s_inv]]) ].
Ltac use IH := first [ apply IH | apply gk_mono; apply IH ].

Theorem QN_all : forall f, QN f.
Proof.
  induction f as [|f IH]; [repeat split; intros; exact I|].
  destruct IH as (IHquery & IHsel & IHbr & IHfs & IHfe & IHfl & IHpr & IHin & IHinb & IHgr & IHgl & IHpf & IHfn & IHal & IHai).
  Ltac kgo IHquery IHsel IHbr IHfs IHfe IHfl IHpr IHin IHinb IHgr IHgl IHpf IHfn IHal IHai :=
    repeat (cbv zeta beta;
      match goal with
      | |- gk _ (pbind _ _) => apply gk_bind; [ | intros ? ? ? ]
      | |- gk _ (p_query _ _ _ _) => use IHquery; s_inv0
      | |- gk _ (p_selectors _ _ _) => use IHsel; s_inv
      | |- gk _ (p_bracket_loop _ _ _) => use IHbr; s_inv
      | |- gk _ (p_filter_selector _ _ _) => use IHfs; s_inv
      | |- gk _ (p_fexpr _ _ _ _) => use IHfe; s_inv
      | |- gk _ (p_fexpr_loop _ _ _ _ _) => use IHfl; s_inv
      | |- gk _ (p_primary _ _ _) => use IHpr; s_inv
      | |- gk true (p_infix _ _ _ _) => apply IHin; s_inv
      | |- gk false (p_infix _ _ _ (adv (after_peek ?s))) =>
          apply IHinb; [s_inv | rewrite (cur_adv_after_peek s) by s_inv; unfold peek_ty in *; congruence]
      | |- gk _ (p_grouped _ _ _) => use IHgr; s_inv
      | |- gk _ (p_grouped_loop _ _ _ _) => use IHgl; s_inv
      | |- gk _ (p_prefix _ _ _) => use IHpf; s_inv
      | |- gk _ (p_function _ _ _) => use IHfn; s_inv
      | |- gk _ (p_args_loop _ _ _) => use IHal; s_inv
      | |- gk _ (p_arg_infix_loop _ _ _ _) => use IHai; s_inv
      | |- gk _ (p_slice _ _) => first [apply gk_slice | apply gk_mono; apply gk_slice]; s_inv
      | |- gk true (p_literal _) => apply gk_literal; s_inv
      | |- gk _ (err_cur _ _) => apply gk_err_cur
      | |- gk _ (err_peek _ _) => apply gk_err_peek
      | |- gk _ (match ?x with _ => _ end) => first [is_var x; destruct x | destruct x eqn:?]
      | |- gk _ (if ?x then _ else _) => destruct x eqn:?
      | |- gk _ (let '(_, _) := ?x in _) => first [is_var x; destruct x | destruct x eqn:?]
      | |- gk _ (POk _ (if ?b then _ else _)) => destruct b
      | |- gk _ (POk _ _) => leafk
      | |- gk _ (PErr _ _) => exact I
      | |- gk _ (PCrash _ _) => leafk
      | |- gk _ PFuel => exact I
      end).
  repeat split.
  - intros inf s H. rewrite p_query_S. pose proof (sinv0_sinv toks _ H). kgo IHquery IHsel IHbr IHfs IHfe IHfl IHpr IHin IHinb IHgr IHgl IHpf IHfn IHal IHai.
  - intros s H. rewrite p_selectors_S. kgo IHquery IHsel IHbr IHfs IHfe IHfl IHpr IHin IHinb IHgr IHgl IHpf IHfn IHal IHai.
  - intros s H. rewrite p_bracket_loop_S. pose proof (cur_tokok s H) as Ht. unfold TokOk in Ht.
    kgo IHquery IHsel IHbr IHfs IHfe IHfl IHpr IHin IHinb IHgr IHgl IHpf IHfn IHal IHai.
    all: exfalso; apply Ht; unfold cty in *; auto.
  - intros s H. rewrite p_filter_selector_S. kgo IHquery IHsel IHbr IHfs IHfe IHfl IHpr IHin IHinb IHgr IHgl IHpf IHfn IHal IHai.
  - intros prec s H. rewrite p_fexpr_S. destruct (negb (in_token_map (cty s))); [exact I|].
    pose proof (IHpr s H) as G. destruct (p_primary cfg f s) as [lhs s1|c off|x s1|]; cbn [gk] in G.
    + apply IHfl; assumption.
    + exact I.
    + destruct G as (_ & -> & G). exact I.
    + exact I.
  - intros prec lhs s H. rewrite p_fexpr_loop_S. kgo IHquery IHsel IHbr IHfs IHfe IHfl IHpr IHin IHinb IHgr IHgl IHpf IHfn IHal IHai.
  - intros s H. rewrite p_primary_S. kgo IHquery IHsel IHbr IHfs IHfe IHfl IHpr IHin IHinb IHgr IHgl IHpf IHfn IHal IHai.
  - intros lhs s H. rewrite p_infix_S. kgo IHquery IHsel IHbr IHfs IHfe IHfl IHpr IHin IHinb IHgr IHgl IHpf IHfn IHal IHai.
  - intros lhs s H Hb. rewrite p_infix_S. cbv zeta. apply gk_bind; [apply IHfe; s_inv|]. intros rhs s1 H1.
    destruct (binary_operator (ty (cur s))) as [b|]; [|congruence].
    kgo IHquery IHsel IHbr IHfs IHfe IHfl IHpr IHin IHinb IHgr IHgl IHpf IHfn IHal IHai.
  - intros s H. rewrite p_grouped_S. kgo IHquery IHsel IHbr IHfs IHfe IHfl IHpr IHin IHinb IHgr IHgl IHpf IHfn IHal IHai.
  - intros e s H. rewrite p_grouped_loop_S. kgo IHquery IHsel IHbr IHfs IHfe IHfl IHpr IHin IHinb IHgr IHgl IHpf IHfn IHal IHai.
  - intros s H. rewrite p_prefix_S. kgo IHquery IHsel IHbr IHfs IHfe IHfl IHpr IHin IHinb IHgr IHgl IHpf IHfn IHal IHai.
  - intros s H. rewrite p_function_S. kgo IHquery IHsel IHbr IHfs IHfe IHfl IHpr IHin IHinb IHgr IHgl IHpf IHfn IHal IHai.
  - intros s H. rewrite p_args_loop_S. kgo IHquery IHsel IHbr IHfs IHfe IHfl IHpr IHin IHinb IHgr IHgl IHpf IHfn IHal IHai.
  - intros e s H. rewrite p_arg_infix_loop_S. kgo IHquery IHsel IHbr IHfs IHfe IHfl IHpr IHin IHinb IHgr IHgl IHpf IHfn IHal IHai.
Qed.

Theorem parse_no_crash : toks <> [] -> ty (last toks eof_token) = T_EOF -> forall x s, p_parse cfg toks <> PCrash x s.
Proof.
  intros Hne Hl x s E. pose proof (sinv_init toks Hne Hl) as Hs. unfold p_parse in E. cbv zeta in E.
  destruct (negb (is_ty T_ROOT (stream_init toks))); [unfold err_cur in E; discriminate|].
  destruct (QN_all (parse_fuel toks)) as (Hq & _).
  pose proof (Hq false (adv (stream_init toks)) (sinv0_adv toks _ Hs)) as G.
  destruct (p_query cfg (parse_fuel toks) false (adv (stream_init toks))) as [q s1|c1 o1|x1 s1|]; cbn [pbind gk] in *; try discriminate.
  - destruct (negb (is_ty T_EOF s1)); [unfold err_cur in E|]; discriminate.
  - destruct G as [G _]. discriminate.
Qed.
End NoCrash.
