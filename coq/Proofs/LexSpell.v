(* C04 / C03, lexical layer at the level of characters: what text a token list stands for.

   The lexer drops characters (blanks, quotes, the dot of a shorthand, the parenthesis that opens a call).  This file proves
   that it drops nothing else: whenever [m_tokenize text] returns a token list, [text] is "$" followed, token by token, by a
   GAP and the token's own text (tval), where the gap is fully determined by an abstract machine that reads TOKEN TYPES only
   (mode segment / after ".." / inside brackets / inside a filter, plus the lexer's three filter stacks):
     - blanks only (space, tab, LF, CR), possibly none;
     - nothing at all after "..", and before the end of the text;
     - blanks then "." before a shorthand name or wildcard (no blank after the dot);
     - the quotes around a string body and the "(" after a function name, directly adjacent.
   An invariant of the state machine of Model/Lex.v over (state, characters consumed, tokens emitted). *)
From JP Require Import Base.Prelude Model.Regex Model.Tokens Model.Lex Proofs.StringProofs Proofs.LexNoCrash Proofs.LexInv Proofs.Requery Proofs.ParseSound Proofs.LexShape.
From Coq Require Import ZifyBool ZifyN.

(* ------------------------------------------------------------------------------------------------------------------------- *)
(* the abstract machine over token types *)
Inductive amode := MSeg | MDesc | MBrk | MFil.
Record ast := mkA { am : amode; afd : Z; affd : list Z; afcs : list Z }.
Inductive gk := GNone | GBl | GDot.

Definition a0 : ast := mkA MSeg 0 [] [].
Definition amode_set (a : ast) (m : amode) : ast := mkA m (afd a) (affd a) (afcs a).

(* a token read while a filter expression is open *)
Definition fil_step (a : ast) (T : ttype) : option (gk * ast) :=
  match T with
  | T_RBRACKET => match affd a with _ :: f' => Some (GBl, mkA MSeg (afd a - 1) f' (afcs a)) | [] => None end
  | T_COMMA => match affd a with
               | d :: f' => if d <? zlen (afcs a) then Some (GBl, amode_set a MFil) else Some (GBl, mkA MBrk (afd a - 1) f' (afcs a))
               | [] => None
               end
  | T_SQ_STRING | T_DQ_STRING | T_NOT | T_NE | T_EQ | T_LE | T_LT | T_GE | T_GT | T_AND | T_OR | T_TRUE | T_FALSE | T_NULL
  | T_FLOAT | T_INT => Some (GBl, amode_set a MFil)
  | T_LPAREN => Some (GBl, mkA MFil (afd a) (affd a) (match afcs a with n :: r => n + 1 :: r | [] => [] end))
  | T_RPAREN => Some (GBl, mkA MFil (afd a) (affd a) (match afcs a with n :: r => if n =? 1 then r else n - 1 :: r | [] => [] end))
  | T_ROOT | T_CURRENT => Some (GBl, amode_set a MSeg)
  | T_FUNCTION => Some (GBl, mkA MFil (afd a) (affd a) (1 :: afcs a))
  | T_PROPERTY | T_WILD => Some (GDot, amode_set a MSeg)
  | T_DOUBLE_DOT => Some (GBl, amode_set a MDesc)
  | _ => None
  end.

Definition astep (a : ast) (T : ttype) : option (gk * ast) :=
  match am a with
  | MSeg => match T with
            | T_EOF => Some (GNone, a)
            | T_DOUBLE_DOT => Some (GBl, amode_set a MDesc)
            | T_LBRACKET => Some (GBl, amode_set a MBrk)
            | T_PROPERTY | T_WILD => Some (GDot, amode_set a MSeg)
            | _ => if afd a =? 0 then None else fil_step a T
            end
  | MDesc => match T with
             | T_WILD | T_PROPERTY => Some (GNone, amode_set a MSeg)
             | T_LBRACKET => Some (GNone, amode_set a MBrk)
             | _ => None
             end
  | MBrk => match T with
            | T_RBRACKET => Some (GBl, amode_set a MSeg)
            | T_WILD | T_COMMA | T_COLON | T_INDEX | T_SQ_STRING | T_DQ_STRING => Some (GBl, a)
            | T_FILTER => Some (GBl, mkA MFil (afd a + 1) (zlen (afcs a) :: affd a) (afcs a))
            | _ => None
            end
  | MFil => fil_step a T
  end.

(* characters that belong to a token but are not part of its text *)
Definition post (T : ttype) : list N := match T with T_SQ_STRING => [39%N] | T_DQ_STRING => [34%N] | T_FUNCTION => [40%N] | _ => [] end.
Definition pre (k : gk) (T : ttype) : list N :=
  match k with GDot => [46%N] | _ => match T with T_SQ_STRING => [39%N] | T_DQ_STRING => [34%N] | _ => [] end end.
Definition is_blank (c : N) : bool := N.eqb c 32 || N.eqb c 10 || N.eqb c 13 || N.eqb c 9.
Definition blanks (b : list N) : Prop := forallb is_blank b = true.
Definition gap_ok (prev : ttype) (k : gk) (T : ttype) (g : list N) : Prop :=
  exists b, g = post prev ++ b ++ pre k T /\ blanks b /\ (k = GNone -> b = []).

(* the text of a token *)
Definition pmatch (r : re) (v : list N) : Prop := exists rest, re_match r (v ++ rest) = Some (zlen v).
Definition tshape (T : ttype) (v : list N) : Prop :=
  match T with
  | T_ROOT => v = [36%N] | T_CURRENT => v = [64%N] | T_LBRACKET => v = [91%N] | T_RBRACKET => v = [93%N] | T_WILD => v = [42%N]
  | T_COMMA => v = [44%N] | T_COLON => v = [58%N] | T_FILTER => v = [63%N] | T_LPAREN => v = [40%N] | T_RPAREN => v = [41%N]
  | T_NOT => v = [33%N] | T_NE => v = [33; 61]%N | T_EQ => v = [61; 61]%N | T_LE => v = [60; 61]%N | T_LT => v = [60%N]
  | T_GE => v = [62; 61]%N | T_GT => v = [62%N] | T_AND => v = [38; 38]%N | T_OR => v = [124; 124]%N
  | T_TRUE => v = s_true | T_FALSE => v = s_false | T_NULL => v = s_null | T_DOUBLE_DOT => v = [46; 46]%N | T_EOF => v = []
  | T_PROPERTY => pmatch RE_PROPERTY v | T_INDEX => pmatch RE_INDEX v | T_INT => pmatch RE_INT v | T_FLOAT => pmatch RE_FLOAT v
  | T_FUNCTION => pmatch RE_FUNCTION_NAME v
  | T_SQ_STRING => lex_ok 39 v = true | T_DQ_STRING => lex_ok 34 v = true
  | _ => False
  end.

Definition lastty (ts : list token) : ttype := match ts with t :: _ => ty t | [] => T_EOF end.

(* newest token first; x = the text consumed up to and including the newest token's own text *)
Inductive RunR : list token -> list N -> ast -> Prop :=
| RR0 r : ty r = T_ROOT -> tval r = [36%N] -> RunR [r] [36%N] a0
| RRS ts x a t k a' g : RunR ts x a -> astep a (ty t) = Some (k, a') -> gap_ok (lastty ts) k (ty t) g -> tshape (ty t) (tval t) ->
    RunR (t :: ts) (x ++ g ++ tval t) a'.

(* oldest token first *)
Inductive Run : ast -> ttype -> list token -> list N -> ast -> Prop :=
| Run_nil a p : Run a p [] [] a
| Run_cons a p t k a1 g ts x a2 : astep a (ty t) = Some (k, a1) -> gap_ok p k (ty t) g -> tshape (ty t) (tval t) -> Run a1 (ty t) ts x a2 ->
    Run a p (t :: ts) (g ++ tval t ++ x) a2.

Lemma Run_snoc a p ts x a1 : Run a p ts x a1 -> forall t k a2 g, astep a1 (ty t) = Some (k, a2) ->
  gap_ok (match rev ts with l :: _ => ty l | [] => p end) k (ty t) g -> tshape (ty t) (tval t) -> Run a p (ts ++ [t]) (x ++ g ++ tval t) a2.
Proof.
  induction 1 as [a p | a p t0 k0 a1 g0 ts x a2 Hs Hg Ht HR IH]; intros t k a3 g Hs' Hg' Ht'.
  - cbn [app rev] in *. replace (g ++ tval t) with (g ++ tval t ++ []) by (rewrite app_nil_r; reflexivity). econstructor; try eassumption. constructor.
  - cbn [app]. replace ((g0 ++ tval t0 ++ x) ++ g ++ tval t) with (g0 ++ tval t0 ++ (x ++ g ++ tval t)) by (rewrite <- !app_assoc; reflexivity).
    econstructor; try eassumption. apply (IH t k a3 g Hs'); [|exact Ht'].
    cbn [rev] in Hg'. destruct (rev ts) as [|l r] eqn:E; cbn [app] in Hg'; exact Hg'.
Qed.

Lemma RunR_Run : forall ts x a, RunR ts x a -> exists r rest y, rev ts = r :: rest /\ ty r = T_ROOT /\ x = 36%N :: y /\ Run a0 T_ROOT rest y a.
Proof.
  induction 1 as [r Hr Hv | ts x a t k a' g HR IH Hs Hg Ht].
  - exists r, [], []. repeat split; try assumption. constructor.
  - destruct IH as (r & rest & y & E & Hr & -> & HRun). exists r, (rest ++ [t]), (y ++ g ++ tval t). cbn [rev]. rewrite E. repeat split; try assumption.
    eapply Run_snoc; try eassumption.
    assert (El : lastty ts = match rev rest with l :: _ => ty l | [] => T_ROOT end).
    { destruct ts as [|t0 ts']; [discriminate|]. cbn [rev lastty] in *. assert (E2 : rev (rev ts' ++ [t0]) = rev (r :: rest)) by (rewrite E; reflexivity).
      rewrite rev_app_distr in E2. cbn [rev app] in E2. destruct (rev rest) as [|l rr] eqn:Er.
      - cbn [app] in E2. inversion E2; subst. exact Hr.
      - cbn [app] in E2. inversion E2; subst. reflexivity. }
    rewrite <- El. exact Hg.
Qed.

(* ------------------------------------------------------------------------------------------------------------------------- *)
(* blanks: what RE_WHITESPACE does *)
Lemma ws_fuel (s : list N) : exists F, (8 * length s + 64 = S (S (S (S F))))%nat.
Proof. exists (8 * length s + 60)%nat. lia. Qed.

Lemma blank_ranges c : xorb false (in_ranges c [(32, 32); (10, 10); (13, 13); (9, 9)]%N) = is_blank c.
Proof.
  cbn [xorb in_ranges]. unfold is_blank.
  assert (R : forall k, ((k <=? c)%N && (c <=? k)%N) = N.eqb c k).
  { intros k. destruct (N.eqb_spec c k) as [->|Hne]; [rewrite N.leb_refl; reflexivity|].
    destruct (N.leb_spec k c), (N.leb_spec c k); try reflexivity. exfalso. apply Hne. apply N.le_antisymm; assumption. }
  rewrite !R, orb_false_r. destruct (N.eqb c 32), (N.eqb c 10), (N.eqb c 13), (N.eqb c 9); reflexivity.
Qed.

Lemma ws_nomatch c r : is_blank c = false -> re_match RE_WHITESPACE (c :: r) = None.
Proof.
  intros Hc. unfold re_match. destruct (ws_fuel (c :: r)) as [F ->]. unfold RE_WHITESPACE, RPlus. rewrite rm_seq_S, rm_class_S.
  rewrite (blank_ranges c), Hc. reflexivity.
Qed.

Lemma ws_sound s n : re_match RE_WHITESPACE s = Some n -> 0 <= n /\ (Z.to_nat n <= length s)%nat /\ blanks (firstn (Z.to_nat n) s).
Proof.
  unfold re_match. destruct (ws_fuel s) as [F ->]. unfold RE_WHITESPACE, RPlus. rewrite rm_seq_S, rm_class_S.
  destruct s as [|c s']; [discriminate|]. destruct (xorb false (in_ranges c [(32, 32); (10, 10); (13, 13); (9, 9)]%N)) eqn:Ec; [|discriminate].
  intros H. destruct (star_sound _ _ _ _ _ H) as (k & -> & Hk & Hd). replace (Z.to_nat (0 + 1 + Z.of_nat k)) with (S k) by lia.
  split; [lia|]. split; [cbn [length]; lia|]. unfold blanks. cbn [firstn forallb]. apply andb_true_iff. split.
  - rewrite <- blank_ranges. exact Ec.
  - rewrite forallb_forall in *. intros d Hd'. specialize (Hd d Hd'). rewrite <- blank_ranges. cbn [xorb]. rewrite Hd. reflexivity.
Qed.

(* ------------------------------------------------------------------------------------------------------------------------- *)
(* what the primitives do to (cur, rest) *)
Lemma next_some l c l1 : l_next l = (Some c, l1) -> l_rest l = c :: l_rest l1 /\ l_cur l1 = c :: l_cur l.
Proof. unfold l_next. destruct (l_rest l) as [|d r]; intros H; inversion H; subst. split; reflexivity. Qed.
Lemma next_none l l1 : l_next l = (None, l1) -> l_rest l = [] /\ l1 = l.
Proof. unfold l_next. destruct (l_rest l) as [|d r]; intros H; inversion H; subst. split; reflexivity. Qed.
Lemma backup_some l l2 : l_backup l = Some l2 -> exists c, l_cur l = c :: l_cur l2 /\ l_rest l2 = c :: l_rest l.
Proof. unfold l_backup. destruct (l_cur l) as [|c r]; intros H; inversion H; subst. exists c. split; reflexivity. Qed.
Lemma next_backup l c l1 l2 : l_next l = (Some c, l1) -> l_backup l1 = Some l2 -> l_rest l2 = l_rest l /\ l_cur l2 = l_cur l.
Proof.
  intros H1 H2. apply next_some in H1 as [A B]. apply backup_some in H2 as (d & C & D). rewrite B in C. inversion C; subst. rewrite D, A. split; reflexivity.
Qed.
Lemma peek_rest l c : l_peek l = Some c -> exists r, l_rest l = c :: r.
Proof. unfold l_peek. destruct (l_rest l) as [|d r]; intros H; inversion H; subst. exists r. reflexivity. Qed.
Lemma next_snd_peek l c : l_peek l = Some c -> l_rest l = c :: l_rest (snd (l_next l)) /\ l_cur (snd (l_next l)) = c :: l_cur l.
Proof. intros H. apply next_some. unfold l_next, l_peek in *. destruct (l_rest l) as [|d r]; inversion H; subst. reflexivity. Qed.
Lemma ceq_peek l c : ceq (l_peek l) c = true -> l_peek l = Some c.
Proof. unfold ceq. destruct (l_peek l) as [d|]; [|discriminate]. intros H. apply N.eqb_eq in H. subst. reflexivity. Qed.

Lemma advance_spec l n : 0 <= n -> (Z.to_nat n <= length (l_rest l))%nat ->
  l_rest l = firstn (Z.to_nat n) (l_rest l) ++ l_rest (l_advance l n) /\ l_cur (l_advance l n) = rev (firstn (Z.to_nat n) (l_rest l)) ++ l_cur l.
Proof.
  intros H0 Hn. unfold l_advance. rewrite (skipn_push_spec _ _ _ Hn). cbn [l_rest l_cur upd_text]. split; [symmetry; apply firstn_skipn | reflexivity].
Qed.
Lemma accept_match_true r l l' : l_accept_match r l = (true, l') ->
  exists v, l_rest l = v ++ l_rest l' /\ l_cur l' = rev v ++ l_cur l /\ pmatch r v.
Proof.
  unfold l_accept_match. destruct (re_match r (l_rest l)) as [n|] eqn:E; [|discriminate]. intros H; inversion H; subst l'.
  pose proof (re_match_bound _ _ _ E) as [B0 B1]. assert (Hn : (Z.to_nat n <= length (l_rest l))%nat) by (unfold zlen in B1; lia).
  destruct (advance_spec l n B0 Hn) as [A B]. exists (firstn (Z.to_nat n) (l_rest l)). split; [exact A|]. split; [exact B|].
  exists (l_rest (l_advance l n)). rewrite <- A. rewrite E. f_equal. unfold zlen. rewrite firstn_length. lia.
Qed.
Lemma accept_match_false r l l' : l_accept_match r l = (false, l') -> l' = l.
Proof. unfold l_accept_match. destruct (re_match r (l_rest l)); intros H; inversion H; reflexivity. Qed.
Lemma is_prefix_app : forall p s, is_prefix p s = true -> exists r, s = p ++ r.
Proof.
  induction p as [|c p IH]; intros s H; [exists s; reflexivity|]. destruct s as [|d s']; [discriminate|]. cbn [is_prefix] in H.
  apply andb_true_iff in H as [E H]. apply N.eqb_eq in E. subst d. destruct (IH s' H) as [r ->]. exists r. reflexivity.
Qed.
Lemma accept_true p l l' : l_accept p l = (true, l') -> l_rest l = p ++ l_rest l' /\ l_cur l' = rev p ++ l_cur l.
Proof.
  unfold l_accept. destruct (is_prefix p (l_rest l)) eqn:E; [|discriminate]. intros H; inversion H; subst l'.
  destruct (is_prefix_app _ _ E) as [r Er]. assert (Hn : (Z.to_nat (zlen p) <= length (l_rest l))%nat) by (rewrite Er, app_length; unfold zlen; lia).
  destruct (advance_spec l (zlen p) ltac:(unfold zlen; lia) Hn) as [A B].
  assert (F : firstn (Z.to_nat (zlen p)) (l_rest l) = p). { rewrite Er. unfold zlen. rewrite Nat2Z.id. rewrite firstn_app, Nat.sub_diag, firstn_all. cbn [firstn]. apply app_nil_r. }
  rewrite F in A, B. split; [|exact B]. apply (app_inv_head p). rewrite <- A. reflexivity.
Qed.
Lemma accept_false p l l' : l_accept p l = (false, l') -> l' = l.
Proof. unfold l_accept. destruct (is_prefix p (l_rest l)); intros H; inversion H; reflexivity. Qed.

Lemma ignore_ws_spec l b l0 : l_ignore_ws l = Some (b, l0) ->
  l_cur l = [] /\ l_cur l0 = [] /\ exists w, blanks w /\ l_rest l = w ++ l_rest l0 /\ (b = false -> w = [] /\ l0 = l).
Proof.
  unfold l_ignore_ws. destruct (l_cur l) eqn:Ec; [|discriminate]. destruct (l_accept_match RE_WHITESPACE l) as [w a] eqn:E. intros H; inversion H; subst. clear H.
  split; [reflexivity|]. destruct b.
  - unfold l_accept_match in E. destruct (re_match RE_WHITESPACE (l_rest l)) as [n|] eqn:Em; [|discriminate]. inversion E; subst a.
    destruct (ws_sound _ _ Em) as (H0 & Hn & Hb). destruct (advance_spec l n H0 Hn) as [A B]. split; [reflexivity|].
    exists (firstn (Z.to_nat n) (l_rest l)). split; [exact Hb|]. split; [exact A | discriminate].
  - apply accept_match_false in E. subst a. split; [exact Ec|]. exists []. split; [reflexivity|]. split; [reflexivity | intros _; split; reflexivity].
Qed.
Lemma ignore_ws_nonblank l c : l_cur l = [] -> l_peek l = Some c -> is_blank c = false -> l_ignore_ws l = Some (false, l).
Proof.
  intros Ec Hp Hc. unfold l_ignore_ws. rewrite Ec. unfold l_accept_match. destruct (peek_rest _ _ Hp) as [r Er]. rewrite Er, (ws_nomatch c r Hc). reflexivity.
Qed.

(* with the frame (stacks and tokens untouched) *)
Lemma nextS l c l1 : l_next l = (Some c, l1) -> l_rest l = c :: l_rest l1 /\ l_cur l1 = c :: l_cur l /\ frame l l1.
Proof. intros H. destruct (next_some _ _ _ H). split; [assumption|]. split; [assumption|]. apply (frame_next _ _ _ H). Qed.
Lemma nextN l l1 : l_next l = (None, l1) -> l_rest l = [] /\ l1 = l.
Proof. apply next_none. Qed.
Lemma next_backup_gen l c l1 l1' l2 : l_next l = (Some c, l1) -> l_cur l1' = l_cur l1 -> l_rest l1' = l_rest l1 -> l_backup l1' = Some l2 ->
  l_rest l = l_rest l2 /\ l_cur l2 = l_cur l /\ l_rest l2 = c :: l_rest l1 /\ frame l1' l2.
Proof.
  intros H1 Ec Er H2. pose proof (frame_backup _ _ H2) as F. apply next_some in H1 as [A B]. apply backup_some in H2 as (d & C & D).
  rewrite Ec, B in C. assert (c = d) by congruence. subst d. assert (E2 : l_cur l2 = l_cur l) by congruence. split; [congruence|]. split; [exact E2|]. split; [congruence | exact F].
Qed.
Lemma acceptMT r l l' : l_accept_match r l = (true, l') -> exists v, l_rest l = v ++ l_rest l' /\ l_cur l' = rev v ++ l_cur l /\ pmatch r v /\ frame l l'.
Proof. intros H. destruct (accept_match_true _ _ _ H) as (v & A & B & C). exists v. split; [assumption|]. split; [assumption|]. split; [assumption|]. apply (frame_accept_match _ _ _ _ H). Qed.
Lemma acceptT p l l' : l_accept p l = (true, l') -> l_rest l = p ++ l_rest l' /\ l_cur l' = rev p ++ l_cur l /\ frame l l'.
Proof. intros H. destruct (accept_true _ _ _ H). split; [assumption|]. split; [assumption|]. apply (frame_accept _ _ _ _ H). Qed.
Lemma ignore_wsS l b l0 : l_ignore_ws l = Some (b, l0) ->
  l_cur l = [] /\ l_cur l0 = [] /\ (exists w, blanks w /\ l_rest l = w ++ l_rest l0 /\ (b = false -> w = [] /\ l0 = l)) /\ frame l l0.
Proof. intros H. destruct (ignore_ws_spec _ _ _ H) as (A & B & C). split; [assumption|]. split; [assumption|]. split; [assumption|]. apply (frame_ignore_ws _ _ _ H). Qed.

Lemma blanks_app a b : blanks a -> blanks b -> blanks (a ++ b).
Proof. unfold blanks. intros A B. rewrite forallb_app, A, B. reflexivity. Qed.
Lemma blanks_nil : blanks []. Proof. reflexivity. Qed.

Section Inv.
Variable text : list N.

Definition whole (l : lexer) : list N := rev (l_cur l) ++ l_rest l.
Definition stk (a : ast) (l : lexer) : Prop := afd a = l_fdepth l /\ affd a = l_ffd l /\ afcs a = l_fcs l.
Definition fl (a : ast) : Prop := am a = MFil \/ (am a = MSeg /\ afd a <> 0).
Definition gapb (p : ttype) (g : list N) : Prop := exists b, g = post p ++ b /\ blanks b.
Definition qtt (q : N) : ttype := if N.eqb q 39 then T_SQ_STRING else T_DQ_STRING.

Definition Ph (st : lstate) (a : ast) (l : lexer) (g : list N) : Prop :=
  let p := lastty (l_toks l) in
  match st with
  | SRoot => False
  | SSegment => stk a l /\ l_cur l = [] /\ ((am a = MSeg /\ g = post p) \/ (fl a /\ gapb p g /\ l_peek l = Some 46%N))
  | SDescendant => stk a l /\ l_cur l = [] /\ am a = MDesc /\ g = post p
  | SShorthand => stk a l /\ l_cur l = [46%N] /\ gapb p g /\ (am a = MSeg \/ am a = MFil)
  | SBracket => l_cur l = [] /\ gapb p g /\
                ((stk a l /\ am a = MBrk) \/
                 (fl a /\ l_peek l = Some 93%N /\ exists d, affd a = d :: l_ffd l /\ l_fdepth l = afd a - 1 /\ afcs a = l_fcs l))
  | Lex.SFilter => stk a l /\ l_cur l = [] /\ gapb p g /\ fl a
  | SString q inf => stk a l /\ qok q /\ l_cur l = [q] /\ gapb p g /\ (if inf then fl a else am a = MBrk)
  | SStringBody q inf => stk a l /\ qok q /\ (exists b, g = post p ++ b ++ [q] /\ blanks b) /\ lex_ok q (rev (l_cur l)) = true /\
                         (if inf then fl a else am a = MBrk)
  end.

Definition Inv (st : lstate) (l : lexer) : Prop :=
  exists x g a, text = x ++ g ++ whole l /\ RunR (l_toks l) x a /\ Ph st a l g.
Definition Dead (st : lstate) (l : lexer) : Prop := l_rest l = [] /\ l_cur l = [] /\ (st = SBracket \/ st = Lex.SFilter).
Definition Init (l : lexer) : Prop := l_toks l = [] /\ l_cur l = [] /\ l_rest l = text /\ l_fdepth l = 0 /\ l_ffd l = [] /\ l_fcs l = [].
Definition Good (st : lstate) (l : lexer) : Prop := match st with SRoot => Init l | _ => Inv st l \/ Dead st l end.
Definition okG (o : lexout) : Prop :=
  match o with
  | LNext st' l' => Good st' l'
  | LStop l' => match l_toks l' with
                | t :: _ => ty t = T_ERROR \/ (ty t = T_EOF /\ exists a, RunR (l_toks l') text a)
                | [] => False
                end
  | _ => True
  end.

Lemma okG_err l : okG (l_error l).
Proof. unfold l_error. cbn [okG l_toks add_tok]. left. reflexivity. Qed.

(* one emission: the token's text v is what [cur] holds, the gap is everything consumed since the previous token *)
Lemma emit_run toks x a g v rest' T k a' i :
  RunR toks x a -> text = x ++ g ++ v ++ rest' -> astep a T = Some (k, a') -> gap_ok (lastty toks) k T g -> tshape T v ->
  text = (x ++ g ++ v) ++ rest' /\ RunR ({| ty := T; tval := v; tidx := i |} :: toks) (x ++ g ++ v) a'.
Proof.
  intros HR Ht Hs Hg Hv. split; [rewrite Ht, <- !app_assoc; reflexivity|].
  apply (RRS toks x a {| ty := T; tval := v; tidx := i |} k a' g HR); assumption.
Qed.
End Inv.

Ltac fields := cbn [l_emit l_ignore add_tok upd_text set_stacks push_bracket l_toks l_cur l_rest l_fdepth l_ffd l_fcs l_bs lastty ty tval].
Ltac fields_in H := cbn [l_emit l_ignore add_tok upd_text set_stacks push_bracket l_toks l_cur l_rest l_fdepth l_ffd l_fcs l_bs lastty ty tval] in H.
Ltac unframe := repeat match goal with H : frame _ _ |- _ => destruct H as (? & ? & ? & ? & ?) end.
Ltac head_splitG :=
  repeat match goal with
  | |- okG _ (let '(_, _) := ?X in _) => destruct X as [? ?] eqn:?
  | |- okG _ (match ?X with _ => _ end) => first [is_var X; destruct X | destruct X eqn:?]
  | |- okG _ (if ?X then _ else _) => destruct X eqn:?
  end.
Ltac Neq := repeat match goal with H : N.eqb ?x _ = true |- _ => apply N.eqb_eq in H; first [subst x | idtac] end.

Section Steps.
Variable text : list N.
Notation Good := (Good text). Notation okG := (okG text). Notation Inv := (Inv text).

Lemma step_root_G l : Good SRoot l -> okG (lex_step SRoot l).
Proof.
  intros (Ht & Hc & Hr & S1 & S2 & S3). cbn [lex_step]. destruct (l_next l) as [c l1] eqn:En. destruct (ceq c 36) eqn:Ec; [|apply okG_err].
  destruct c as [c'|]; [|discriminate]. cbn [ceq] in Ec. Neq. apply nextS in En as (A & B & F). unframe.
  cbn [okG LexSpell.Good]. left. exists [36%N], [], a0. unfold whole. fields. split; [|split].
  - rewrite <- Hr, A. reflexivity.
  - rw. rewrite B, Hc, Ht. apply RR0; reflexivity.
  - cbn [Ph]. unfold stk, a0. fields. rw. cbn [afd affd afcs]. split; [repeat split; congruence|]. split; [reflexivity|]. left. split; reflexivity.
Qed.

(* the common conclusion of an emitting transition: the emitted token's text is v, everything consumed since the last token is g *)
Lemma emit_inv st' lf toks x a g v T k a' i g' :
  RunR toks x a -> text = x ++ g ++ v ++ g' ++ l_rest lf -> astep a T = Some (k, a') -> gap_ok (lastty toks) k T g -> tshape T v ->
  l_toks lf = {| ty := T; tval := v; tidx := i |} :: toks -> l_cur lf = [] -> Ph st' a' lf g' -> Inv st' lf.
Proof.
  intros HR Ht Hs Hg Hv Et Ec HP. destruct (emit_run text toks x a g v (g' ++ l_rest lf) T k a' i HR Ht Hs Hg Hv) as [E R].
  exists (x ++ g ++ v), g', a'. unfold whole. rewrite Ec, Et. cbn [rev app]. split; [exact E|]. split; [exact R | exact HP].
Qed.

Lemma gap_none p T : pre GNone T = [] -> gap_ok p GNone T (post p).
Proof. intros E. exists []. rewrite E, !app_nil_r. split; [reflexivity|]. split; [reflexivity | reflexivity]. Qed.
Lemma gap_bl p T b : pre GBl T = [] -> blanks b -> gap_ok p GBl T (post p ++ b).
Proof. intros E Hb. exists b. rewrite E, app_nil_r. split; [reflexivity|]. split; [exact Hb | discriminate]. Qed.

Ltac fin_txt := cbn [rev app]; rewrite <- ?app_assoc; cbn [rev app]; rewrite ?app_nil_r; reflexivity.
Ltac stk_tac := unfold stk in *; repeat match goal with H : _ /\ _ |- _ => destruct H end; fields; rw; cbn [amode_set am afd affd afcs]; repeat split; try assumption; try reflexivity; try congruence.

Lemma Good_inv st l : st <> SRoot -> Inv st l -> Good st l.
Proof. intros H HI. destruct st; try (left; exact HI). contradiction. Qed.

Lemma step_desc_G l : Good SDescendant l -> okG (lex_step SDescendant l).
Proof.
  intros [(x & g & a & Htext & HR & (Hs & Hc & Hm & Hg)) | (_ & _ & [D | D])]; try discriminate D. subst g. set (p := lastty (l_toks l)) in *.
  unfold whole in Htext. cbn [lex_step]. destruct (l_next l) as [c l1] eqn:En. destruct c as [c'|]; [|apply okG_err].
  pose proof En as En'. apply nextS in En as (A & B & F). unframe.
  destruct (N.eqb c' 42) eqn:E1; [|destruct (N.eqb c' 91) eqn:E2]; Neq.
  - cbn [okG]. apply Good_inv; [discriminate|].
    eapply (emit_inv SSegment _ (l_toks l) x a (post p) [42%N] T_WILD GNone (amode_set a MSeg) _ []); try exact HR.
    + fields. rewrite Htext, Hc, A. fin_txt.
    + unfold astep. rewrite Hm. reflexivity.
    + apply gap_none. reflexivity.
    + reflexivity.
    + fields. rw. rewrite B, Hc. reflexivity.
    + reflexivity.
    + cbn [Ph]. split; [stk_tac|]. split; [reflexivity|]. left. split; reflexivity.
  - cbn [okG]. apply Good_inv; [discriminate|].
    eapply (emit_inv SBracket _ (l_toks l) x a (post p) [91%N] T_LBRACKET GNone (amode_set a MBrk) _ []); try exact HR.
    + fields. rewrite Htext, Hc, A. fin_txt.
    + unfold astep. rewrite Hm. reflexivity.
    + apply gap_none. reflexivity.
    + reflexivity.
    + fields. rw. rewrite B, Hc. reflexivity.
    + reflexivity.
    + cbn [Ph]. fields. split; [reflexivity|]. split; [exists []; split; reflexivity|]. left. split; [stk_tac | reflexivity].
  - destruct (l_backup l1) as [l2|] eqn:Eb; [|exact I].
    destruct (next_backup_gen _ _ _ _ _ En' eq_refl eq_refl Eb) as (R1 & R2 & _ & F2). unframe.
    destruct (l_accept_match RE_PROPERTY l2) as [b l3] eqn:Em. destruct b; [|apply okG_err].
    apply acceptMT in Em as (v & V1 & V2 & V3 & F3). unframe.
    cbn [okG]. apply Good_inv; [discriminate|].
    eapply (emit_inv SSegment _ (l_toks l) x a (post p) v T_PROPERTY GNone (amode_set a MSeg) _ []); try exact HR.
    + fields. rewrite Htext, Hc, R1, V1. fin_txt.
    + unfold astep. rewrite Hm. reflexivity.
    + apply gap_none. reflexivity.
    + exact V3.
    + fields. rw. rewrite V2, R2, Hc, app_nil_r, rev_involutive. reflexivity.
    + reflexivity.
    + cbn [Ph]. split; [stk_tac|]. split; [reflexivity|]. left. split; reflexivity.
Qed.

Lemma gap_dot p T b : blanks b -> gap_ok p GDot T ((post p ++ b) ++ [46%N]).
Proof. intros Hb. exists b. cbn [pre]. rewrite <- app_assoc. split; [reflexivity|]. split; [exact Hb | discriminate]. Qed.

Lemma step_short_G l : Good SShorthand l -> okG (lex_step SShorthand l).
Proof.
  intros [(x & g & a & Htext & HR & (Hs & Hc & (b & Eg & Hb) & Hm)) | (_ & _ & [D | D])]; try discriminate D. set (p := lastty (l_toks l)) in *.
  unfold whole in Htext. cbn [lex_step]. cbv zeta.
  destruct (l_accept_match RE_WHITESPACE (l_ignore l)) as [w l1] eqn:Ew. destruct w; [apply okG_err|]. apply accept_match_false in Ew. subst l1.
  destruct (l_next (l_ignore l)) as [c l2] eqn:En. destruct c as [c'|].
  2:{ cbn [ceq]. apply nextN in En as [_ ->]. cbn [l_backup l_ignore upd_text l_cur]. exact I. }
  pose proof En as En'. apply nextS in En as (A & B & F). fields_in A. fields_in B. unframe.
  assert (Hst : astep a T_WILD = Some (GDot, amode_set a MSeg) /\ astep a T_PROPERTY = Some (GDot, amode_set a MSeg)).
  { unfold astep. destruct Hm as [-> | ->]; split; reflexivity. }
  destruct Hst as [HsW HsP].
  cbn [ceq]. destruct (N.eqb c' 42) eqn:E1; Neq.
  - cbn [okG]. apply Good_inv; [discriminate|].
    eapply (emit_inv SSegment _ (l_toks l) x a (g ++ [46%N]) [42%N] T_WILD GDot (amode_set a MSeg) _ []); try exact HR.
    + fields. rewrite Htext, Hc, A. fin_txt.
    + exact HsW.
    + rewrite Eg. apply gap_dot. exact Hb.
    + reflexivity.
    + fields. rw. fields. rewrite B. reflexivity.
    + reflexivity.
    + cbn [Ph]. split; [stk_tac|]. split; [reflexivity|]. left. split; reflexivity.
  - destruct (l_backup l2) as [l3|] eqn:Eb; [|exact I].
    destruct (next_backup_gen _ _ _ _ _ En' eq_refl eq_refl Eb) as (R1 & R2 & _ & F2). fields_in R1. fields_in R2. unframe.
    destruct (l_accept_match RE_PROPERTY l3) as [b0 l4] eqn:Em. destruct b0; [|apply okG_err].
    apply acceptMT in Em as (v & V1 & V2 & V3 & F3). unframe.
    cbn [okG]. apply Good_inv; [discriminate|].
    eapply (emit_inv SSegment _ (l_toks l) x a (g ++ [46%N]) v T_PROPERTY GDot (amode_set a MSeg) _ []); try exact HR.
    + fields. rewrite Htext, Hc, R1, V1. fin_txt.
    + exact HsP.
    + rewrite Eg. apply gap_dot. exact Hb.
    + exact V3.
    + fields. rw. fields. rewrite V2, R2, app_nil_r, rev_involutive. reflexivity.
    + reflexivity.
    + cbn [Ph]. split; [stk_tac|]. split; [reflexivity|]. left. split; reflexivity.
Qed.

Lemma peek_next_some l c c' l1 : l_peek l = Some c -> l_next l = (Some c', l1) -> c' = c.
Proof. unfold l_peek, l_next. destruct (l_rest l); intros A B; inversion A; inversion B; subst; reflexivity. Qed.
Lemma peek_next_none l l1 : l_next l = (None, l1) -> l_peek l = None.
Proof. unfold l_peek, l_next. destruct (l_rest l); intros B; inversion B; reflexivity. Qed.

Lemma step_seg_G l : Good SSegment l -> okG (lex_step SSegment l).
Proof.
  intros [(x & g & a & Htext & HR & (Hs & Hc & Hcase)) | (_ & _ & [D | D])]; try discriminate D. set (p := lastty (l_toks l)) in *.
  unfold whole in Htext. cbn [lex_step]. destruct (l_ignore_ws l) as [[ws l0]|] eqn:Ei; [|exact I].
  pose proof Ei as Ei'. apply ignore_wsS in Ei as (_ & Hc0 & (w & Hw & Rw & Hwf) & F0). unframe.
  assert (U1 : exists b', g ++ w = post p ++ b' /\ blanks b').
  { destruct Hcase as [[_ ->] | (_ & (b & -> & Hb) & _)]; [exists w; split; [reflexivity | exact Hw]|]. exists (b ++ w). rewrite app_assoc. split; [reflexivity | apply blanks_app; assumption]. }
  assert (U2 : am a = MSeg \/ (fl a /\ ws = false /\ l0 = l /\ l_peek l = Some 46%N)).
  { destruct Hcase as [[Hm _] | (Hf & _ & Hp)]; [left; exact Hm|]. right. rewrite (ignore_ws_nonblank l 46 Hc Hp eq_refl) in Ei'. inversion Ei'; subst. repeat split; assumption. }
  destruct (ws && match l_peek l0 with Some _ => false | None => true end) eqn:Ee; [apply okG_err|].
  destruct (l_next l0) as [c l1] eqn:En. destruct c as [c'|].
  2:{ (* end of text *)
    pose proof (peek_next_none _ _ En) as Pn. apply nextN in En as [Rn ->]. rewrite Pn, andb_true_r in Ee. subst ws. destruct (Hwf eq_refl) as [-> ->].
    destruct U2 as [Hm | (_ & _ & _ & Hp)]; [|congruence]. destruct Hcase as [[_ Hg] | (_ & _ & Hp)]; [|congruence].
    cbn [okG]. fields. right. split; [reflexivity|]. exists a.
    destruct (emit_run text (l_toks l) x a g [] [] T_EOF GNone a (l_start l) HR) as [_ R].
    - rewrite Htext, Hc, Rn. fin_txt.
    - unfold astep. rewrite Hm. reflexivity.
    - rewrite Hg. apply gap_none. reflexivity.
    - reflexivity.
    - rewrite Hc. cbn [rev]. replace text with (x ++ g ++ []) by (rewrite Htext, Hc, Rn; fin_txt). exact R. }
  pose proof En as En'. apply nextS in En as (A & B & F). unframe.
  assert (U3 : c' = 46%N \/ am a = MSeg).
  { destruct U2 as [Hm | (_ & _ & -> & Hp)]; [right; exact Hm|]. left. exact (peek_next_some _ _ _ _ Hp En'). }
  assert (Hfl : fl a -> astep a T_DOUBLE_DOT = Some (GBl, amode_set a MDesc)).
  { intros [Hm | [Hm Hd]]; unfold astep; rewrite Hm; reflexivity. }
  destruct U1 as (b' & Eg & Hb').
  destruct (N.eqb c' 46) eqn:E1; [|destruct (N.eqb c' 91) eqn:E2]; Neq.
  - destruct (ceq (l_peek l1) 46) eqn:E3.
    + apply ceq_peek in E3. destruct (next_snd_peek _ _ E3) as [A2 B2]. pose proof (frame_next_snd l1) as F2. unframe.
      cbn [okG]. apply Good_inv; [discriminate|].
      eapply (emit_inv SDescendant _ (l_toks l) x a (g ++ w) [46; 46]%N T_DOUBLE_DOT GBl (amode_set a MDesc) _ []); try exact HR.
      * fields. rewrite Htext, Hc, Rw, A, A2. fin_txt.
      * destruct U2 as [Hm | (Hf & _)]; [unfold astep; rewrite Hm; reflexivity | exact (Hfl Hf)].
      * rewrite Eg. apply gap_bl; [reflexivity | exact Hb'].
      * reflexivity.
      * fields. rw. rewrite B2, B, Hc0. reflexivity.
      * reflexivity.
      * cbn [Ph]. split; [stk_tac|]. split; [reflexivity|]. split; reflexivity.
    + cbn [okG]. apply Good_inv; [discriminate|]. exists x, (g ++ w), a. unfold whole. split; [|split].
      * rewrite Htext, Hc, Rw, A, B, Hc0. fin_txt.
      * rw. exact HR.
      * cbn [Ph]. split; [stk_tac|]. split; [rewrite B, Hc0; reflexivity|]. rw. fold p. split; [exists b'; split; assumption|].
        destruct U2 as [Hm | ([Hm | [Hm _]] & _)]; [left | right | left]; exact Hm.
  - destruct U3 as [U3 | Hm]; [discriminate U3|].
    cbn [okG]. apply Good_inv; [discriminate|].
    eapply (emit_inv SBracket _ (l_toks l) x a (g ++ w) [91%N] T_LBRACKET GBl (amode_set a MBrk) _ []); try exact HR.
    + fields. rewrite Htext, Hc, Rw, A. fin_txt.
    + unfold astep. rewrite Hm. reflexivity.
    + rewrite Eg. apply gap_bl; [reflexivity | exact Hb'].
    + reflexivity.
    + fields. rw. rewrite B, Hc0. reflexivity.
    + reflexivity.
    + cbn [Ph]. fields. split; [reflexivity|]. split; [exists []; split; reflexivity|]. left. split; [stk_tac | reflexivity].
  - destruct U3 as [-> | Hm]; [discriminate E1|].
    destruct (negb (l_fdepth l1 =? 0)) eqn:Ed; [|apply okG_err].
    destruct (l_backup l1) as [l2|] eqn:Eb; [|exact I].
    destruct (next_backup_gen _ _ _ _ _ En' eq_refl eq_refl Eb) as (R1 & R2 & _ & F2). unframe.
    cbn [okG]. apply Good_inv; [discriminate|]. exists x, (g ++ w), a. unfold whole. split; [|split].
    + rewrite Htext, Hc, Rw, R1, R2, Hc0. fin_txt.
    + rw. exact HR.
    + cbn [Ph]. split; [stk_tac|]. split; [rewrite R2; exact Hc0|]. rw. fold p. split; [exists b'; split; assumption|].
      right. split; [exact Hm|]. destruct Hs as (Hs1 & _). rw. lia.
Qed.

Lemma gapb_nil T : gapb (lastty [{| ty := T; tval := []; tidx := 0 |}]) (post T).
Proof. exists []. rewrite app_nil_r. split; reflexivity. Qed.

Lemma step_bracket_G l : Good SBracket l -> okG (lex_step SBracket l).
Proof.
  intros [(x & g & a & Htext & HR & (Hc & (b & Eg & Hb) & Hcase)) | (Dr & Dc & _)].
  2:{ cbn [lex_step]. unfold l_ignore_ws. rewrite Dc. unfold l_accept_match. rewrite Dr. change (re_match RE_WHITESPACE []) with (@None Z). cbn iota.
      unfold l_next. rewrite Dr. apply okG_err. }
  set (p := lastty (l_toks l)) in *. unfold whole in Htext. cbn [lex_step]. destruct (l_ignore_ws l) as [[ws l0]|] eqn:Ei; [|exact I].
  pose proof Ei as Ei'. apply ignore_wsS in Ei as (_ & Hc0 & (w & Hw & Rw & Hwf) & F0). unframe.
  destruct (l_next l0) as [c l1] eqn:En. destruct c as [c'|]; [|apply okG_err].
  pose proof En as En'. apply nextS in En as (A & B & F). unframe.
  assert (Hbw : blanks (b ++ w)) by (apply blanks_app; assumption).
  assert (Egw : g ++ w = post p ++ (b ++ w)) by (rewrite Eg, app_assoc; reflexivity).
  assert (U : (stk a l /\ am a = MBrk) \/ (c' = 93%N /\ fl a /\ exists d, affd a = d :: l_ffd l /\ l_fdepth l = afd a - 1 /\ afcs a = l_fcs l)).
  { destruct Hcase as [N | (Hf & Hp & Hd)]; [left; exact N|]. right. rewrite (ignore_ws_nonblank l 93 Hc Hp eq_refl) in Ei'. inversion Ei'; subst.
    split; [exact (peek_next_some _ _ _ _ Hp En')|]. split; assumption. }
  (* a token of one character that keeps the machine inside the brackets *)
  assert (Stay : forall T v, am a = MBrk -> stk a l -> astep a T = Some (GBl, a) -> pre GBl T = [] -> post T = [] -> tshape T v -> v = [c'] ->
                 Good SBracket (l_emit T l1)).
  { intros T v Hm Hs Hst Hpre Hpost Hv ->. apply Good_inv; [discriminate|].
    eapply (emit_inv SBracket _ (l_toks l) x a (g ++ w) [c'] T GBl a _ []); try exact HR.
    - fields. rewrite Htext, Hc, Rw, A. fin_txt.
    - exact Hst.
    - rewrite Egw. apply gap_bl; assumption.
    - exact Hv.
    - fields. rw. rewrite B, Hc0. reflexivity.
    - reflexivity.
    - cbn [Ph]. fields. split; [reflexivity|]. split; [exists []; rewrite Hpost; split; reflexivity|]. left. split; [stk_tac | exact Hm]. }
  destruct (N.eqb c' 93) eqn:E1; Neq.
  { destruct (l_bs l1) as [|[k0 i0] bs'] eqn:Ebs.
    { destruct (l_backup l1); [apply okG_err | exact I]. }
    destruct k0; try (destruct (l_backup l1); [apply okG_err | exact I]).
    repeat (match goal with |- context [match ?pp with xI _ => _ | xO _ => _ | xH => _ end] => destruct pp end; try (destruct (l_backup l1); [apply okG_err | exact I])).
    cbn [okG]. apply Good_inv; [discriminate|].
    destruct U as [(Hs & Hm) | (_ & Hf & (d & Effd & Efd & Efcs))].
    - eapply (emit_inv SSegment _ (l_toks l) x a (g ++ w) [93%N] T_RBRACKET GBl (amode_set a MSeg) _ []); try exact HR.
      + fields. rewrite Htext, Hc, Rw, A. fin_txt.
      + unfold astep. rewrite Hm. reflexivity.
      + rewrite Egw. apply gap_bl; [reflexivity | exact Hbw].
      + reflexivity.
      + fields. rw. rewrite B, Hc0. reflexivity.
      + reflexivity.
      + cbn [Ph]. split; [stk_tac|]. split; [reflexivity|]. left. split; reflexivity.
    - eapply (emit_inv SSegment _ (l_toks l) x a (g ++ w) [93%N] T_RBRACKET GBl (mkA MSeg (afd a - 1) (l_ffd l) (afcs a)) _ []); try exact HR.
      + fields. rewrite Htext, Hc, Rw, A. fin_txt.
      + unfold astep. destruct Hf as [Hm | [Hm Hd]]; rewrite Hm; [|replace (afd a =? 0) with false by lia]; unfold fil_step; rewrite Effd; reflexivity.
      + rewrite Egw. apply gap_bl; [reflexivity | exact Hbw].
      + reflexivity.
      + fields. rw. rewrite B, Hc0. reflexivity.
      + reflexivity.
      + cbn [Ph]. split; [unfold stk; fields; rw; cbn [afd affd afcs]; repeat split; congruence|]. split; [reflexivity|]. left. split; reflexivity. }
  destruct U as [(Hs & Hm) | (U & _)]; [|apply N.eqb_neq in E1; contradiction].
  destruct (N.eqb c' 42) eqn:E2; Neq. { cbn [okG]. apply (Stay T_WILD [42%N]); try reflexivity; try assumption. unfold astep. rewrite Hm. reflexivity. }
  destruct (N.eqb c' 63) eqn:E3; Neq.
  { cbn [okG]. apply Good_inv; [discriminate|].
    eapply (emit_inv Lex.SFilter _ (l_toks l) x a (g ++ w) [63%N] T_FILTER GBl (mkA MFil (afd a + 1) (zlen (afcs a) :: affd a) (afcs a)) _ []); try exact HR.
    + fields. rewrite Htext, Hc, Rw, A. fin_txt.
    + unfold astep. rewrite Hm. reflexivity.
    + rewrite Egw. apply gap_bl; [reflexivity | exact Hbw].
    + reflexivity.
    + fields. rw. rewrite B, Hc0. reflexivity.
    + reflexivity.
    + cbn [Ph]. destruct Hs as (S1 & S2 & S3). split; [unfold stk; fields; rw; cbn [afd affd afcs]; repeat split; congruence|]. split; [reflexivity|].
      split; [exists []; split; reflexivity|]. left. reflexivity. }
  destruct (N.eqb c' 44) eqn:E4; Neq. { cbn [okG]. apply (Stay T_COMMA [44%N]); try reflexivity; try assumption. unfold astep. rewrite Hm. reflexivity. }
  destruct (N.eqb c' 58) eqn:E5; Neq. { cbn [okG]. apply (Stay T_COLON [58%N]); try reflexivity; try assumption. unfold astep. rewrite Hm. reflexivity. }
  assert (Str : forall q, c' = q -> qok q -> Good (SString q false) l1).
  { intros q -> Hq. apply Good_inv; [discriminate|]. exists x, (g ++ w), a. unfold whole. split; [|split].
    - rewrite Htext, Hc, Rw, A, B, Hc0. fin_txt.
    - rw. exact HR.
    - cbn [Ph]. split; [stk_tac|]. split; [exact Hq|]. split; [rewrite B, Hc0; reflexivity|]. rw. fold p. split; [exists (b ++ w); split; assumption | exact Hm]. }
  destruct (N.eqb c' 39) eqn:E6; Neq. { cbn [okG]. apply Str; [reflexivity | left; reflexivity]. }
  destruct (N.eqb c' 34) eqn:E7; Neq. { cbn [okG]. apply Str; [reflexivity | right; reflexivity]. }
  destruct (l_backup l1) as [l2|] eqn:Eb; [|exact I].
  destruct (next_backup_gen _ _ _ _ _ En' eq_refl eq_refl Eb) as (R1 & R2 & _ & F2). unframe.
  destruct (l_accept_match RE_INDEX l2) as [b0 l3] eqn:Em. destruct b0; [|apply okG_err].
  apply acceptMT in Em as (v & V1 & V2 & V3 & F3). unframe.
  cbn [okG]. apply Good_inv; [discriminate|].
  eapply (emit_inv SBracket _ (l_toks l) x a (g ++ w) v T_INDEX GBl a _ []); try exact HR.
  - fields. rewrite Htext, Hc, Rw, R1, V1. fin_txt.
  - unfold astep. rewrite Hm. reflexivity.
  - rewrite Egw. apply gap_bl; [reflexivity | exact Hbw].
  - exact V3.
  - fields. rw. rewrite V2, R2, Hc0, app_nil_r, rev_involutive. reflexivity.
  - reflexivity.
  - cbn [Ph]. fields. split; [reflexivity|]. split; [exists []; split; reflexivity|]. left. split; [stk_tac | exact Hm].
Qed.

Lemma after_ne_root (inf : bool) : (if inf then Lex.SFilter else SBracket) <> SRoot. Proof. destruct inf; discriminate. Qed.

Lemma step_string_G q inf l : Good (SString q inf) l -> okG (lex_step (SString q inf) l).
Proof.
  intros [(x & g & a & Htext & HR & (Hs & Hq & Hc & (b & Eg & Hb) & Hm)) | (_ & _ & [D | D])]; try discriminate D. set (p := lastty (l_toks l)) in *.
  unfold whole in Htext. cbn [lex_step]. cbv zeta. destruct (l_peek (l_ignore l)) eqn:Ep.
  - cbn [okG]. apply Good_inv; [discriminate|]. exists x, (g ++ [q]), a. unfold whole. fields. split; [|split].
    + rewrite Htext, Hc. fin_txt.
    + exact HR.
    + cbn [Ph]. fields. fold p. split; [stk_tac|]. split; [exact Hq|]. split; [exists b; rewrite Eg, <- app_assoc; split; [reflexivity | exact Hb]|].
      split; [reflexivity | exact Hm].
  - cbn [okG]. assert (Er : l_rest l = []) by (unfold l_peek in Ep; cbn [l_ignore upd_text l_rest] in Ep; destruct (l_rest l); [reflexivity | discriminate]).
    assert (Dd : Dead (if inf then Lex.SFilter else SBracket) (l_ignore (snd (l_next (l_emit (if N.eqb q 39 then T_SQ_STRING else T_DQ_STRING) (l_ignore l)))))).
    { unfold l_next. fields. rewrite Er. fields. split; [exact Er|]. split; [reflexivity|]. destruct inf; [right | left]; reflexivity. }
    destruct inf; right; exact Dd.
Qed.

Lemma qtt_pre q : qok q -> pre GBl (if N.eqb q 39 then T_SQ_STRING else T_DQ_STRING) = [q] /\ post (if N.eqb q 39 then T_SQ_STRING else T_DQ_STRING) = [q].
Proof. intros [-> | ->]; split; reflexivity. Qed.
Lemma qtt_shape q v : qok q -> lex_ok q v = true -> tshape (if N.eqb q 39 then T_SQ_STRING else T_DQ_STRING) v.
Proof. intros [-> | ->] H; exact H. Qed.

Lemma step_body_G q inf l : Good (SStringBody q inf) l -> okG (lex_step (SStringBody q inf) l).
Proof.
  intros [(x & g & a & Htext & HR & (Hs & Hq & (b & Eg & Hb) & Hok & Hm)) | (_ & _ & [D | D])]; try discriminate D. set (p := lastty (l_toks l)) in *.
  unfold whole in Htext. cbn [lex_step]. destruct (l_next l) as [c l1] eqn:En. destruct c as [c'|]; [|apply okG_err].
  pose proof En as En'. apply nextS in En as (A & B & F). unframe.
  destruct (N.eqb c' 92) eqn:E1; Neq.
  - destruct (l_peek l1) as [p0|] eqn:Ep; [|apply okG_err]. destruct (existsb (N.eqb p0) ESCAPES || N.eqb p0 q) eqn:Ee; [|apply okG_err].
    destruct (next_snd_peek _ _ Ep) as [A2 B2]. pose proof (frame_next_snd l1) as F2. unframe.
    cbn [okG]. apply Good_inv; [discriminate|]. exists x, g, a. unfold whole. split; [|split].
    + rewrite Htext, A, A2, B2, B. fin_txt.
    + rw. exact HR.
    + cbn [Ph]. rw. fold p. split; [stk_tac|]. split; [exact Hq|]. split; [exists b; split; assumption|]. split; [|exact Hm].
      rewrite B2, B. cbn [rev]. rewrite <- app_assoc. cbn [app]. apply lex_ok_snoc2; assumption.
  - destruct (N.eqb c' q) eqn:E2.
    + apply N.eqb_eq in E2. subst c'. destruct (l_backup l1) as [l2|] eqn:Eb; [|exact I].
      destruct (next_backup_gen _ _ _ _ _ En' eq_refl eq_refl Eb) as (R1 & R2 & R3 & F2). unframe.
      set (tt := if N.eqb q 39 then T_SQ_STRING else T_DQ_STRING) in *.
      assert (Ep : l_peek (l_emit tt l2) = Some q) by (unfold l_peek; fields; rewrite R3; reflexivity).
      destruct (next_snd_peek _ _ Ep) as [A2 B2]. pose proof (frame_next_snd (l_emit tt l2)) as F3. fields_in A2. fields_in B2. unframe.
      destruct (qtt_pre q Hq) as [Hpre Hpost]. fold tt in Hpre, Hpost.
      assert (Hst : exists a', astep a tt = Some (GBl, a') /\ stk a' l /\ (if inf then am a' = MFil else a' = a)).
      { destruct inf.
        - exists (amode_set a MFil). split; [|split; [stk_tac | reflexivity]].
          unfold astep. destruct Hm as [Hm | [Hm Hd]]; rewrite Hm; [|replace (afd a =? 0) with false by lia]; unfold tt; destruct (N.eqb q 39); reflexivity.
        - exists a. split; [|split; [exact Hs | reflexivity]]. unfold astep. rewrite Hm. unfold tt; destruct (N.eqb q 39); reflexivity. }
      destruct Hst as (a' & Hst & Hs' & Ha').
      cbn [okG]. apply Good_inv; [apply after_ne_root|].
      eapply (emit_inv _ _ (l_toks l) x a g (rev (l_cur l)) tt GBl a' _ [q]); try exact HR.
      * fields. rewrite Htext, A. assert (E3 : l_rest l1 = l_rest (snd (l_next (l_emit tt l2)))) by (rewrite R3 in A2; inversion A2; reflexivity). rewrite <- E3. fin_txt.
      * exact Hst.
      * exists b. rewrite Hpre. split; [exact Eg|]. split; [exact Hb | discriminate].
      * apply qtt_shape; assumption.
      * fields. rw. fields. rw. rewrite R2. reflexivity.
      * reflexivity.
      * assert (Elt : lastty (l_toks (l_ignore (snd (l_next (l_emit tt l2))))) = tt) by (fields; rw; fields; reflexivity).
        assert (Hgb : gapb tt [q]) by (exists []; rewrite Hpost; split; reflexivity).
        assert (Hsf : stk a' (l_ignore (snd (l_next (l_emit tt l2))))) by (unfold stk in *; fields; rw; fields; rw; exact Hs').
        destruct inf; cbn [Ph]; rewrite Elt.
        -- split; [exact Hsf|]. split; [reflexivity|]. split; [exact Hgb|]. left. exact Ha'.
        -- split; [reflexivity|]. split; [exact Hgb|]. left. subst a'. split; [exact Hsf | exact Hm].
    + cbn [okG]. apply Good_inv; [discriminate|]. exists x, g, a. unfold whole. split; [|split].
      * rewrite Htext, A, B. fin_txt.
      * rw. exact HR.
      * cbn [Ph]. rw. fold p. split; [stk_tac|]. split; [exact Hq|]. split; [exists b; split; assumption|]. split; [|exact Hm].
        rewrite B. cbn [rev]. apply lex_ok_snoc; assumption.
Qed.

Lemma fl_astep a T : fl a -> T <> T_EOF -> T <> T_LBRACKET -> astep a T = fil_step a T.
Proof.
  intros [Hm | [Hm Hd]] H1 H2; unfold astep; rewrite Hm; [reflexivity|]. replace (afd a =? 0) with false by lia.
  destruct T; try reflexivity; contradiction.
Qed.

Lemma step_filter_G l : Good Lex.SFilter l -> okG (lex_step Lex.SFilter l).
Proof.
  intros [(x & g & a & Htext & HR & (Hs & Hc & (b & Eg & Hb) & Hf)) | (Dr & Dc & _)].
  2:{ cbn [lex_step]. unfold l_ignore_ws. rewrite Dc. unfold l_accept_match. rewrite Dr. change (re_match RE_WHITESPACE []) with (@None Z). cbn iota.
      unfold l_next. rewrite Dr. apply okG_err. }
  set (p := lastty (l_toks l)) in *. unfold whole in Htext. cbn [lex_step]. destruct (l_ignore_ws l) as [[ws l0]|] eqn:Ei; [|exact I].
  apply ignore_wsS in Ei as (_ & Hc0 & (w & Hw & Rw & Hwf) & F0). unframe.
  destruct (l_next l0) as [c l1] eqn:En. destruct c as [c'|]; [|apply okG_err].
  pose proof En as En'. apply nextS in En as (A & B & F). unframe.
  assert (Hbw : blanks (b ++ w)) by (apply blanks_app; assumption).
  assert (Egw : g ++ w = post p ++ (b ++ w)) by (rewrite Eg, app_assoc; reflexivity).
  assert (Htext0 : text = x ++ (g ++ w) ++ l_rest l0) by (rewrite Htext, Hc, Rw; fin_txt).
  destruct Hs as (S1 & S2 & S3).
  (* an emission whose abstract successor is a' and lexer successor lf, the token text v being a prefix of what l0 still had *)
  assert (Emit : forall st' T v i lf a' g', astep a T = Some (GBl, a') -> pre GBl T = [] -> tshape T v -> l_rest l0 = v ++ g' ++ l_rest lf ->
                 l_toks lf = {| ty := T; tval := v; tidx := i |} :: l_toks l -> l_cur lf = [] -> Ph st' a' lf g' -> st' <> SRoot -> Good st' lf).
  { intros st' T v i lf a' g' Hst Hpre Hv Hrest Htk Hcur HP Hne. apply Good_inv; [exact Hne|].
    eapply (emit_inv st' lf (l_toks l) x a (g ++ w) v T GBl a' i g'); try exact HR; try assumption.
    - rewrite Htext0, Hrest. fin_txt.
    - rewrite Egw. apply gap_bl; assumption. }
  (* the common case: the machine stays in the filter with the same stacks *)
  assert (StayF : forall T v i lf, fil_step a T = Some (GBl, amode_set a MFil) -> T <> T_EOF -> T <> T_LBRACKET -> pre GBl T = [] -> post T = [] -> tshape T v ->
                  l_rest l0 = v ++ l_rest lf -> l_toks lf = {| ty := T; tval := v; tidx := i |} :: l_toks l -> l_cur lf = [] ->
                  l_fdepth lf = l_fdepth l -> l_ffd lf = l_ffd l -> l_fcs lf = l_fcs l -> Good Lex.SFilter lf).
  { intros T v i lf Hst N1 N2 Hpre Hpost Hv Hrest Htk Hcur Q1 Q2 Q3. apply (Emit Lex.SFilter T v i lf (amode_set a MFil) []); try assumption; try discriminate.
    - rewrite (fl_astep a T Hf N1 N2). exact Hst.
    - cbn [Ph]. rewrite Htk. cbn [lastty ty]. split; [unfold stk; cbn [amode_set afd affd afcs]; repeat split; congruence|]. split; [exact Hcur|].
      split; [exists []; rewrite Hpost; split; reflexivity | left; reflexivity]. }
  destruct (N.eqb c' 93) eqn:E1; Neq.
  { destruct (l_ffd l1) as [|d ffd'] eqn:Effd; [exact I|].
    destruct (l_backup (set_stacks l1 (l_fdepth l1 - 1) ffd' (l_fcs l1) (l_bs l1))) as [l2|] eqn:Eb; [|exact I].
    destruct (next_backup_gen l0 93 l1 (set_stacks l1 (l_fdepth l1 - 1) ffd' (l_fcs l1) (l_bs l1)) l2 En' eq_refl eq_refl Eb) as (R1 & R2 & R3 & F2). unframe. repeat match goal with H : _ = _ |- _ => progress fields_in H end.
    cbn [okG]. apply Good_inv; [discriminate|]. exists x, (g ++ w), a. unfold whole. split; [|split].
    - rewrite Htext0, R1, R2, Hc0. fin_txt.
    - rw. exact HR.
    - cbn [Ph]. split; [rewrite R2; exact Hc0|]. rw. fold p. split; [exists (b ++ w); split; assumption|]. right. split; [exact Hf|].
      split; [unfold l_peek; rewrite R3; reflexivity|]. exists d. rw. repeat split; congruence. }
  destruct (N.eqb c' 44) eqn:E2; Neq.
  { cbn [l_ffd l_emit l_ignore add_tok upd_text]. destruct (l_ffd l1) as [|d ffd'] eqn:Effd; [exact I|]. cbn [l_fcs l_emit l_ignore add_tok upd_text].
    assert (Effa : affd a = d :: ffd') by congruence. assert (Ez : zlen (afcs a) = zlen (l_fcs l1)) by congruence.
    destruct (d <? zlen (l_fcs l1)) eqn:Ed; cbn [okG].
    - apply (Emit Lex.SFilter T_COMMA [44%N] (l_start l1) _ (amode_set a MFil) []); try reflexivity; try discriminate.
      + rewrite (fl_astep a T_COMMA Hf) by discriminate. unfold fil_step. rewrite Effa, Ez, Ed. reflexivity.
      + fields. rewrite A. reflexivity.
      + fields. rw. rewrite B, Hc0. reflexivity.
      + cbn [Ph]. fields. split; [unfold stk; fields; rw; cbn [amode_set afd affd afcs]; repeat split; congruence|]. split; [reflexivity|].
        split; [exists []; split; reflexivity | left; reflexivity].
    - apply (Emit SBracket T_COMMA [44%N] (l_start l1) _ (mkA MBrk (afd a - 1) ffd' (afcs a)) []); try reflexivity; try discriminate.
      + rewrite (fl_astep a T_COMMA Hf) by discriminate. unfold fil_step. rewrite Effa, Ez, Ed. reflexivity.
      + fields. rewrite A. reflexivity.
      + fields. rw. rewrite B, Hc0. reflexivity.
      + cbn [Ph]. fields. split; [reflexivity|]. split; [exists []; split; reflexivity|]. left.
        split; [unfold stk; fields; rw; cbn [afd affd afcs]; repeat split; congruence | reflexivity]. }
  assert (Str : forall q, c' = q -> qok q -> Good (SString q true) l1).
  { intros q -> Hq. apply Good_inv; [discriminate|]. exists x, (g ++ w), a. unfold whole. split; [|split].
    - rewrite Htext0, A, B, Hc0. fin_txt.
    - rw. exact HR.
    - cbn [Ph]. split; [unfold stk; rw; repeat split; assumption|]. split; [exact Hq|]. split; [rewrite B, Hc0; reflexivity|]. rw. fold p.
      split; [exists (b ++ w); split; assumption | exact Hf]. }
  destruct (N.eqb c' 39) eqn:E3; Neq. { cbn [okG]. apply Str; [reflexivity | left; reflexivity]. }
  destruct (N.eqb c' 34) eqn:E4; Neq. { cbn [okG]. apply Str; [reflexivity | right; reflexivity]. }
  destruct (N.eqb c' 40) eqn:E5; Neq.
  { cbn [okG]. cbn [l_fcs push_bracket set_stacks l_emit l_ignore add_tok upd_text].
    apply (Emit Lex.SFilter T_LPAREN [40%N] (l_start l1) _ (mkA MFil (afd a) (affd a) (match afcs a with n :: r => n + 1 :: r | [] => [] end)) []); try reflexivity; try discriminate.
    - rewrite (fl_astep a T_LPAREN Hf) by discriminate. reflexivity.
    - destruct (l_fcs l1); fields; rewrite A; reflexivity.
    - destruct (l_fcs l1); fields; rw; rewrite B, Hc0; reflexivity.
    - destruct (l_fcs l1); reflexivity.
    - assert (S3' : afcs a = l_fcs l1) by congruence. rewrite S3'. cbn [Ph]. unfold stk.
      destruct (l_fcs l1) as [|n r] eqn:Efc; fields; cbn [afd affd afcs]; (split; [repeat split; congruence|]);
        (split; [reflexivity|]); (split; [exists []; split; reflexivity | left; reflexivity]). }
  destruct (N.eqb c' 41) eqn:E6; Neq.
  { destruct (l_bs l1) as [|[k0 i0] bs'] eqn:Ebs.
    { destruct (l_backup l1); [apply okG_err | exact I]. }
    destruct k0; try (destruct (l_backup l1); [apply okG_err | exact I]).
    repeat (match goal with |- context [match ?pp with xI _ => _ | xO _ => _ | xH => _ end] => destruct pp end; try (destruct (l_backup l1); [apply okG_err | exact I])).
    cbn [okG]. cbn [l_fcs set_stacks l_emit l_ignore add_tok upd_text].
    apply (Emit Lex.SFilter T_RPAREN [41%N] (l_start l1) _ (mkA MFil (afd a) (affd a) (match afcs a with n :: r => if n =? 1 then r else n - 1 :: r | [] => [] end)) []); try reflexivity; try discriminate.
    - rewrite (fl_astep a T_RPAREN Hf) by discriminate. reflexivity.
    - destruct (l_fcs l1); fields; rewrite A; reflexivity.
    - destruct (l_fcs l1); fields; rw; rewrite B, Hc0; reflexivity.
    - destruct (l_fcs l1); reflexivity.
    - assert (S3' : afcs a = l_fcs l1) by congruence. rewrite S3'. cbn [Ph]. unfold stk.
      destruct (l_fcs l1) as [|n r] eqn:Efc; fields; cbn [afd affd afcs]; (split; [repeat split; congruence|]);
        (split; [reflexivity|]); (split; [exists []; split; reflexivity | left; reflexivity]). }
  assert (ToSeg : forall T, c' = match T with T_ROOT => 36%N | _ => 64%N end -> (T = T_ROOT \/ T = T_CURRENT) -> Good SSegment (l_emit T l1)).
  { intros T Ec HT. apply (Emit SSegment T [c'] (l_start l1) _ (amode_set a MSeg) []); try discriminate.
    - destruct HT as [-> | ->]; rewrite (fl_astep a _ Hf) by discriminate; reflexivity.
    - destruct HT as [-> | ->]; reflexivity.
    - destruct HT as [-> | ->]; rewrite Ec; reflexivity.
    - fields. rewrite A. reflexivity.
    - fields. rw. rewrite B, Hc0. reflexivity.
    - reflexivity.
    - cbn [Ph]. fields. split; [unfold stk; fields; rw; cbn [amode_set afd affd afcs]; repeat split; congruence|]. split; [reflexivity|]. left.
      split; [reflexivity | destruct HT as [-> | ->]; reflexivity]. }
  destruct (N.eqb c' 36) eqn:E7; Neq. { cbn [okG]. apply ToSeg; [reflexivity | left; reflexivity]. }
  destruct (N.eqb c' 64) eqn:E8; Neq. { cbn [okG]. apply ToSeg; [reflexivity | right; reflexivity]. }
  destruct (N.eqb c' 46) eqn:E9; Neq.
  { destruct (l_backup l1) as [l2|] eqn:Eb; [|exact I].
    destruct (next_backup_gen _ _ _ _ _ En' eq_refl eq_refl Eb) as (R1 & R2 & R3 & F2). unframe.
    cbn [okG]. apply Good_inv; [discriminate|]. exists x, (g ++ w), a. unfold whole. split; [|split].
    - rewrite Htext0, R1, R2, Hc0. fin_txt.
    - rw. exact HR.
    - cbn [Ph]. split; [unfold stk; rw; repeat split; assumption|]. split; [rewrite R2; exact Hc0|]. right. split; [exact Hf|]. rw. fold p.
      split; [exists (b ++ w); split; assumption|]. unfold l_peek. rewrite R3. reflexivity. }
  (* one or two characters *)
  assert (Two : forall T2 T1 c2, fil_step a T2 = Some (GBl, amode_set a MFil) -> fil_step a T1 = Some (GBl, amode_set a MFil) ->
                T2 <> T_EOF -> T2 <> T_LBRACKET -> T1 <> T_EOF -> T1 <> T_LBRACKET -> pre GBl T2 = [] -> pre GBl T1 = [] -> post T2 = [] -> post T1 = [] ->
                tshape T2 [c'; c2] -> tshape T1 [c'] -> Good Lex.SFilter (emit2 l1 c2 T2 T1)).
  { intros T2 T1 c2 F2 F1 N1 N2 N3 N4 P1 P2 P3 P4 V2 V1. unfold emit2. destruct (ceq (l_peek l1) c2) eqn:Ec2.
    - apply ceq_peek in Ec2. destruct (next_snd_peek _ _ Ec2) as [A2 B2]. pose proof (frame_next_snd l1) as Fx. unframe.
      apply (StayF T2 [c'; c2] (l_start (snd (l_next l1)))); try assumption; fields; rw; try reflexivity.
      + rewrite A, A2. reflexivity.
      + rewrite B2, B, Hc0. reflexivity.
    - apply (StayF T1 [c'] (l_start l1)); try assumption; fields; rw; try reflexivity.
      rewrite B, Hc0. reflexivity. }
  destruct (N.eqb c' 33) eqn:E10; Neq. { cbn [okG]. apply Two; try reflexivity; discriminate. }
  destruct (N.eqb c' 61) eqn:E11; Neq.
  { destruct (ceq (l_peek l1) 61) eqn:Ec2; [|destruct (l_backup l1); [apply okG_err | exact I]].
    apply ceq_peek in Ec2. destruct (next_snd_peek _ _ Ec2) as [A2 B2]. pose proof (frame_next_snd l1) as Fx. unframe.
    cbn [okG]. apply (StayF T_EQ [61; 61]%N (l_start (snd (l_next l1)))); try reflexivity; try discriminate; fields; rw; try reflexivity.
    - rewrite A, A2. reflexivity.
    - rewrite B2, B, Hc0. reflexivity. }
  destruct (N.eqb c' 60) eqn:E12; Neq. { cbn [okG]. apply Two; try reflexivity; discriminate. }
  destruct (N.eqb c' 62) eqn:E13; Neq. { cbn [okG]. apply Two; try reflexivity; discriminate. }
  destruct (l_backup l1) as [l2|] eqn:Eb; [|exact I].
  destruct (next_backup_gen _ _ _ _ _ En' eq_refl eq_refl Eb) as (R1 & R2 & R3 & F2). unframe.
  assert (Hc2 : l_cur l2 = []) by congruence.
  destruct (l_accept_match RE_FUNCTION_NAME l2) as [b0 f0] eqn:Efn.
  destruct (b0 && ceq (l_peek f0) 40) eqn:Ecall.
  { apply andb_true_iff in Ecall as [-> Epk]. apply ceq_peek in Epk. apply acceptMT in Efn as (v & V1 & V2 & V3 & F3). unframe.
    set (l5 := push_bracket 40 _ _).
    assert (Ep5 : l_peek l5 = Some 40%N) by (unfold l5, l_peek in *; fields; exact Epk).
    destruct (next_snd_peek _ _ Ep5) as [A5 B5]. pose proof (frame_next_snd l5) as F5. subst l5. fields_in A5. fields_in B5.
    destruct F5 as (Q1 & Q2 & Q3 & _ & Q5).
    cbn [okG]. apply (Emit Lex.SFilter T_FUNCTION v (l_start f0) _ (mkA MFil (afd a) (affd a) (1 :: afcs a)) [40%N]); try reflexivity; try discriminate.
    - rewrite (fl_astep a T_FUNCTION Hf) by discriminate. reflexivity.
    - exact V3.
    - fields. rewrite R1, V1, A5. reflexivity.
    - fields. rewrite Q5. fields. rewrite V2, Hc2, app_nil_r, rev_involutive. rw. reflexivity.
    - cbn [Ph]. unfold stk. fields. rewrite Q1, Q2, Q3, Q5. fields. rw. cbn [afd affd afcs]. split; [repeat split; congruence|]. split; [reflexivity|].
      split; [exists []; split; reflexivity | left; reflexivity]. }
  clear Efn Ecall b0 f0.
  (* keywords and operators spelled with l_accept *)
  assert (Kw : forall T kw l', l_accept kw l2 = (true, l') -> fil_step a T = Some (GBl, amode_set a MFil) -> T <> T_EOF -> T <> T_LBRACKET ->
               pre GBl T = [] -> post T = [] -> tshape T kw -> Good Lex.SFilter (l_emit T l')).
  { intros T kw l' Hacc Hst N1 N2 P1 P2 Hv. apply acceptT in Hacc as (K1 & K2 & F3). unframe.
    apply (StayF T kw (l_start l')); try assumption; fields; rw; try reflexivity.
    - rewrite R1, K1. reflexivity.
    - rewrite K2, Hc2, app_nil_r, rev_involutive. reflexivity. }
  assert (Rx : forall T r l', l_accept_match r l2 = (true, l') -> fil_step a T = Some (GBl, amode_set a MFil) -> T <> T_EOF -> T <> T_LBRACKET ->
               pre GBl T = [] -> post T = [] -> (forall v, pmatch r v -> tshape T v) -> Good Lex.SFilter (l_emit T l')).
  { intros T r l' Hacc Hst N1 N2 P1 P2 Hv. apply acceptMT in Hacc as (v & K1 & K2 & K3 & F3). unframe.
    apply (StayF T v (l_start l')); try assumption; fields; rw; try reflexivity.
    - apply Hv. exact K3.
    - rewrite R1, K1. reflexivity.
    - rewrite K2, Hc2, app_nil_r, rev_involutive. reflexivity. }
  destruct (l_accept [38; 38]%N l2) as [b1 a1] eqn:E_1. destruct b1. { cbn [okG]. apply (Kw T_AND _ _ E_1); try reflexivity; discriminate. }
  destruct (l_accept [124; 124]%N l2) as [b2 a2] eqn:E_2. destruct b2. { cbn [okG]. apply (Kw T_OR _ _ E_2); try reflexivity; discriminate. }
  destruct (l_accept s_true l2) as [b3 a3] eqn:E_3. destruct b3. { cbn [okG]. apply (Kw T_TRUE _ _ E_3); try reflexivity; discriminate. }
  destruct (l_accept s_false l2) as [b4 a4] eqn:E_4. destruct b4. { cbn [okG]. apply (Kw T_FALSE _ _ E_4); try reflexivity; discriminate. }
  destruct (l_accept s_null l2) as [b5 a5] eqn:E_5. destruct b5. { cbn [okG]. apply (Kw T_NULL _ _ E_5); try reflexivity; discriminate. }
  destruct (l_accept_match RE_FLOAT l2) as [b6 a6] eqn:E_6. destruct b6. { cbn [okG]. apply (Rx T_FLOAT _ _ E_6); try reflexivity; try discriminate. intros v Hv; exact Hv. }
  destruct (l_accept_match RE_INT l2) as [b7 a7] eqn:E_7. destruct b7. { cbn [okG]. apply (Rx T_INT _ _ E_7); try reflexivity; try discriminate. intros v Hv; exact Hv. }
  apply okG_err.
Qed.

Theorem lex_step_G st l : Good st l -> okG (lex_step st l).
Proof.
  destruct st; [apply step_root_G | apply step_seg_G | apply step_desc_G | apply step_short_G | apply step_bracket_G | apply step_filter_G
               | apply step_string_G | apply step_body_G].
Qed.

Theorem lex_run_G : forall fuel st l, Good st l -> match lex_run fuel st l with Ok l' => okG (LStop l') | _ => True end.
Proof.
  induction fuel as [|f IH]; intros st l H; [exact I|]. cbn [lex_run].
  pose proof (lex_step_G st l H) as Hs. destruct (lex_step st l); cbn [LexSpell.okG] in Hs; [apply IH; exact Hs | exact Hs | exact I | exact I].
Qed.
End Steps.

(* THE TEXT IS THE TOKENS: whatever m_tokenize returns, the text is "$" followed by gap_1 tval_1 gap_2 tval_2 ... where the abstract
   machine, reading token types only, says what each gap may be *)
Theorem tokenize_spelled text toks : m_tokenize text = Ok toks ->
  exists r ts y a, toks = r :: ts /\ ty r = T_ROOT /\ text = 36%N :: y /\ Run a0 T_ROOT ts y a.
Proof.
  unfold m_tokenize. assert (G0 : Good text SRoot (lexer_init text)) by (unfold lexer_init; repeat split).
  pose proof (lex_run_G text (lex_fuel text) SRoot (lexer_init text) G0) as H.
  destruct (lex_run (lex_fuel text) SRoot (lexer_init text)) as [l| | |]; cbn [bind]; try discriminate. cbn [okG] in H.
  destruct (l_toks l) as [|e r] eqn:Et; [contradiction|].
  destruct (ttype_eqb (ty e) T_ERROR) eqn:Ee; [discriminate|]. destruct (l_bs l) as [|[c i] bs]; [|discriminate]. intros E. inversion E; subst toks.
  destruct H as [H | (_ & a & HR)]; [rewrite H in Ee; discriminate|].
  destruct (RunR_Run _ _ _ HR) as (r0 & rest & y & Er & Hr & Ex & HRun). exists r0, rest, y, a. repeat split; assumption.
Qed.
