(* C04, parser side: what Parser.parse accepts is grammatical - the converse of Proofs/ParseComplete.v.
   For every token list with the shape the lexer produces (exactly one EOF, at the end; INDEX tokens are optional-minus digits;
   a DOUBLE_DOT is followed by a name, a wildcard or an opening bracket), if Parser.parse returns a query then the tokens
   between ROOT and EOF are derived for that query by the typed token-level grammar QT. *)
From JP Require Import Base.Prelude Model.Tokens Model.Ast Model.Parse Spec.Types.
From JP Require Import Proofs.ParseInv Proofs.Requery Proofs.Reparse Proofs.ParseComplete.

(* --- token lists as the lexer makes them -------------------------------------------------------------------------------------- *)
Definition idx_wf (v : str) : Prop :=
  exists sign body, v = sign ++ body /\ (sign = [] \/ sign = [45%N]) /\ body <> [] /\ forallb isd body = true.
Definition seghd (t : ttype) : Prop := t = T_PROPERTY \/ t = T_WILD \/ t = T_LBRACKET.
Fixpoint wf (l : list token) : Prop :=
  match l with
  | [] => False
  | t :: r => match r with
              | [] => ty t = T_EOF
              | x :: _ => ty t <> T_EOF /\ (ty t = T_INDEX -> idx_wf (tval t)) /\ (ty t = T_DOUBLE_DOT -> seghd (ty x)) /\ wf r
              end
  end.
Lemma wf_cons t x r : wf (t :: x :: r) -> ty t <> T_EOF /\ (ty t = T_INDEX -> idx_wf (tval t)) /\ (ty t = T_DOUBLE_DOT -> seghd (ty x)) /\ wf (x :: r).
Proof. intros H. exact H. Qed.
Lemma wf_one t : wf [t] -> ty t = T_EOF. Proof. intros H. exact H. Qed.
Lemma wf_nonempty l : wf l -> l <> []. Proof. destruct l; [intros [] | discriminate]. Qed.
Lemma wf_noteof t r : wf (t :: r) -> ty t <> T_EOF -> exists x r', r = x :: r' /\ wf (x :: r').
Proof. destruct r as [|x r']; [intros H Hn; cbn in H; contradiction | intros H _; exists x, r'; split; [reflexivity | apply (wf_cons t x r' H)]]. Qed.

(* --- streams: what is still to be read -------------------------------------------------------------------------------------------- *)
(* after a parse function returns, the tokens U are what next() will deliver *)
Definition Sh (s : stream) (U : list token) : Prop :=
  (exists c, s = SS c U /\ ty c <> T_EOF) \/ (exists c n r, s = SP c n r /\ U = n :: r).

Lemma sh_peek_ty s n r : Sh s (n :: r) -> peek_ty s = ty n.
Proof. intros [(c & -> & Hc) | (c & n' & r' & -> & E)]; [apply peek_ty_SS; exact Hc | inversion E; apply peek_ty_SP]. Qed.
Lemma sh_after_peek s n r : Sh s (n :: r) -> exists c, after_peek s = SP c n r.
Proof. intros [(c & -> & Hc) | (c & n' & r' & -> & E)]; [exists c; apply after_peek_SS; exact Hc | inversion E; exists c; apply after_peek_SP]. Qed.
Lemma sh_adv s n r : Sh s (n :: r) -> adv s = SS n r.
Proof. intros [(c & -> & Hc) | (c & n' & r' & -> & E)]; [apply adv_SS; exact Hc | inversion E; apply adv_SP]. Qed.
Lemma sh_SP c n r : Sh (SP c n r) (n :: r). Proof. right. exists c, n, r. split; reflexivity. Qed.
Lemma sh_SS c U : ty c <> T_EOF -> Sh (SS c U) U. Proof. intros H. left. exists c. split; [reflexivity | exact H]. Qed.
Lemma sh_after_peek_sh s n r : Sh s (n :: r) -> Sh (after_peek s) (n :: r).
Proof. intros H. destruct (sh_after_peek s n r H) as [c ->]. apply sh_SP. Qed.

Lemma teq_true (a b : ttype) : ttype_eqb a b = true -> a = b.
Proof. destruct a, b; cbn; intros H; try discriminate; reflexivity. Qed.
Lemma teq_false (a b : ttype) : ttype_eqb a b = false -> a <> b.
Proof. intros H E. subst. destruct b; discriminate. Qed.
Lemma is_ty_SS t c r : is_ty t (SS c r) = ttype_eqb (ty c) t. Proof. reflexivity. Qed.
Lemma tk_eta t : t = tk (ty t) (tval t) (tidx t). Proof. destruct t; reflexivity. Qed.

Section PS.
Variable cfg : envcfg.
Notation rg := (reg cfg).

Lemma maybe_index_inv s b s1 : maybe_index s = POk b s1 ->
  s1 = s /\ (b = true -> ty (cur s) = T_INDEX /\ ((1 <? zlen (tval (cur s))) && (starts_with [48%N] (tval (cur s)) || starts_with [45%N; 48%N] (tval (cur s)))) = false)
         /\ (b = false -> ty (cur s) <> T_INDEX).
Proof.
  unfold maybe_index, is_ty, cty. destruct (ttype_eqb (ty (cur s)) T_INDEX) eqn:E.
  - destruct (_ && _) eqn:Ec; [unfold err_cur; discriminate|]. intros H. inversion H; subst. split; [reflexivity|]. split; [intros _; split; [apply teq_true; exact E | reflexivity] | discriminate].
  - intros H. inversion H; subst. split; [reflexivity|]. split; [discriminate | intros _; apply teq_false; exact E].
Qed.

Lemma sw_m0_len v : starts_with [45%N; 48%N] v = true -> 1 <? zlen v = true.
Proof. destruct v as [|a [|b v']]; cbn; intros H; try discriminate; [rewrite andb_false_r in H; discriminate | unfold zlen; cbn [length]; lia]. Qed.
Lemma idx_text v : idx_wf v -> ((1 <? zlen v) && (starts_with [48%N] v || starts_with [45%N; 48%N] v)) = false -> int_text_ok v (int_of_index v).
Proof.
  intros (sign & body & -> & Hs & Hb & Hd) Hc. split; [destruct Hs as [-> | ->]; [exact Hb | discriminate]|]. split; [reflexivity|].
  split; [exists sign, body; auto|].
  destruct (starts_with [45%N; 48%N] (sign ++ body)) eqn:E2.
  - rewrite (sw_m0_len _ E2) in Hc. rewrite orb_true_r in Hc. discriminate.
  - rewrite orb_false_r in *. exact Hc.
Qed.

(* the part of parse_slice after the first colon *)
Definition slice_rest (tok0 : token) (start : option Z) (s : stream) : pres sel :=
  dop b2, s <- maybe_index s;
  let '(stop, second, s) :=
      if b2 then
        let v := int_of_index (tval (cur s)) in
        let s := adv s in
        if is_ty T_COLON s then (Some v, true, adv s) else (Some v, false, s)
      else if is_ty T_COLON s then (None, true, adv s) else (None, false, s) in
  dop b3, s <- (if second then maybe_index s else POk false s);
  let '(step, s) := if b3 then (Some (int_of_index (tval (cur s))), adv s) else (None, s) in
  let s := s_push s (cur s) in
  let okr o := match o with Some i => in_range cfg i | None => true end in
  if okr start && okr stop && okr step then POk (SSlice start stop step) s
  else PErr EIndex (tidx tok0).

Lemma push_SS c r : s_push (SS c r) c = SP c c r. Proof. reflexivity. Qed.

Tactic Notation "nxt" hyp(H) "as" ident(x) ident(r') ident(W) :=
  match type of H with wf (?t :: ?r) => let E := fresh "E" in destruct (wf_noteof t r H ltac:(congruence)) as (x & r' & E & W); subst r end.

Lemma optI_tok x i : ty x = T_INDEX -> idx_wf (tval x) ->
  ((1 <? zlen (tval x)) && (starts_with [48%N] (tval x) || starts_with [45%N; 48%N] (tval x))) = false -> in_range cfg (int_of_index (tval x)) = true ->
  i = int_of_index (tval x) -> OptI cfg (Some i) [x].
Proof.
  intros Tx Hw Hc Hr ->. cbn [OptI]. exists (tval x), (tidx x). split; [rewrite (tk_eta x) at 1; rewrite Tx; reflexivity|]. split; [apply idx_text; assumption | exact Hr].
Qed.
Lemma colon_tok x : ty x = T_COLON -> exists v i, x = tk T_COLON v i.
Proof. intros H. exists (tval x), (tidx x). rewrite (tk_eta x) at 1. rewrite H. reflexivity. Qed.

Lemma slice_rest_sound tok0 start x r x0 s' : wf (x :: r) -> slice_rest tok0 start (SS x r) = POk x0 s' ->
  exists stop step tb tc n r', x0 = SSlice start stop step /\ x :: r = tb ++ tc ++ n :: r' /\ wf (n :: r') /\ s' = SP n n r' /\
    OptI cfg stop tb /\ StepT cfg step tc /\ match start with Some i => in_range cfg i = true | None => True end.
Proof.
  intros W H. unfold slice_rest in H.
  destruct (maybe_index (SS x r)) as [b2 s1| | |] eqn:E2; cbn [pbind] in H; try discriminate.
  destruct (maybe_index_inv _ _ _ E2) as (-> & Ht & Hf). cbn [cur SS] in *.
  assert (Hst : forall o : unit, (match start with Some i => in_range cfg i | None => true end) = true -> match start with Some i => in_range cfg i = true | None => True end)
    by (intros _ Hs; destruct start; [exact Hs | exact I]).
  destruct b2.
  - (* stop present *)
    destruct (Ht eq_refl) as [Tx Cx]. pose proof W as W0. nxt W as a1 l1 W1. rewrite (adv_SS x a1 l1) in H by congruence.
    pose proof (proj1 (proj2 (wf_cons x a1 l1 W0)) Tx) as Ix.
    rewrite is_ty_SS in H. destruct (ttype_eqb (ty a1) T_COLON) eqn:Ec.
    + (* second colon *) apply teq_true in Ec. pose proof W1 as W10. nxt W1 as a2 l2 W2. rewrite (adv_SS a1 a2 l2) in H by congruence.
      destruct (maybe_index (SS a2 l2)) as [b3 s3| | |] eqn:E3; cbn [pbind] in H; try discriminate.
      destruct (maybe_index_inv _ _ _ E3) as (-> & Ht3 & Hf3). cbn [cur SS] in *. destruct (colon_tok a1 Ec) as (v1 & i1 & Ea1). destruct b3.
      * destruct (Ht3 eq_refl) as [T2 C2]. pose proof W2 as W20. nxt W2 as a3 l3 W3. rewrite (adv_SS a2 a3 l3) in H by congruence. cbn [cur SS] in H. rewrite push_SS in H.
        pose proof (proj1 (proj2 (wf_cons a2 a3 l3 W20)) T2) as I2.
        destruct (match start with Some i => in_range cfg i | None => true end) eqn:R1; cbn [andb] in H; [|discriminate].
        destruct (in_range cfg (int_of_index (tval x))) eqn:R2; cbn [andb] in H; [|discriminate].
        destruct (in_range cfg (int_of_index (tval a2))) eqn:R3; [|discriminate]. inversion H; subst x0 s'.
        exists (Some (int_of_index (tval x))), (Some (int_of_index (tval a2))), [x], [a1; a2], a3, l3.
        split; [reflexivity|]. split; [reflexivity|]. split; [exact W3|]. split; [reflexivity|].
        split; [apply (optI_tok x _ Tx Ix Cx R2 eq_refl)|].
        split; [right; exists v1, i1, [a2]; split; [rewrite Ea1; reflexivity | apply (optI_tok a2 _ T2 I2 C2 R3 eq_refl)] | apply (Hst tt eq_refl)].
      * cbn [cur SS] in H. rewrite push_SS in H.
        destruct (match start with Some i => in_range cfg i | None => true end) eqn:R1; cbn [andb] in H; [|discriminate].
        destruct (in_range cfg (int_of_index (tval x))) eqn:R2; cbn [andb] in H; [|discriminate]. inversion H; subst x0 s'.
        exists (Some (int_of_index (tval x))), None, [x], [a1], a2, l2.
        split; [reflexivity|]. split; [reflexivity|]. split; [exact W2|]. split; [reflexivity|].
        split; [apply (optI_tok x _ Tx Ix Cx R2 eq_refl)|].
        split; [right; exists v1, i1, []; split; [rewrite Ea1; reflexivity | reflexivity] | apply (Hst tt eq_refl)].
    + (* no second colon *) cbn [pbind] in H. cbn [cur SS] in H. rewrite push_SS in H.
      destruct (match start with Some i => in_range cfg i | None => true end) eqn:R1; cbn [andb] in H; [|discriminate].
      destruct (in_range cfg (int_of_index (tval x))) eqn:R2; cbn [andb] in H; [|discriminate]. inversion H; subst x0 s'.
      exists (Some (int_of_index (tval x))), None, [x], [], a1, l1.
      split; [reflexivity|]. split; [reflexivity|]. split; [exact W1|]. split; [reflexivity|].
      split; [apply (optI_tok x _ Tx Ix Cx R2 eq_refl)|]. split; [left; split; reflexivity | apply (Hst tt eq_refl)].
  - (* stop omitted *)
    rewrite is_ty_SS in H. destruct (ttype_eqb (ty x) T_COLON) eqn:Ec.
    + apply teq_true in Ec. destruct (colon_tok x Ec) as (v1 & i1 & Ex). pose proof W as W0. nxt W as a1 l1 W1. rewrite (adv_SS x a1 l1) in H by congruence.
      destruct (maybe_index (SS a1 l1)) as [b3 s3| | |] eqn:E3; cbn [pbind] in H; try discriminate.
      destruct (maybe_index_inv _ _ _ E3) as (-> & Ht3 & Hf3). cbn [cur SS] in *. destruct b3.
      * destruct (Ht3 eq_refl) as [T2 C2]. pose proof W1 as W10. nxt W1 as a2 l2 W2. rewrite (adv_SS a1 a2 l2) in H by congruence. cbn [cur SS] in H. rewrite push_SS in H.
        pose proof (proj1 (proj2 (wf_cons a1 a2 l2 W10)) T2) as I2.
        destruct (match start with Some i => in_range cfg i | None => true end) eqn:R1; cbn [andb] in H; [|discriminate].
        destruct (in_range cfg (int_of_index (tval a1))) eqn:R3; [|discriminate]. inversion H; subst x0 s'.
        exists None, (Some (int_of_index (tval a1))), [], [x; a1], a2, l2.
        split; [reflexivity|]. split; [reflexivity|]. split; [exact W2|]. split; [reflexivity|]. split; [reflexivity|].
        split; [right; exists v1, i1, [a1]; split; [rewrite Ex at 1; reflexivity | apply (optI_tok a1 _ T2 I2 C2 R3 eq_refl)] | apply (Hst tt eq_refl)].
      * cbn [cur SS] in H. rewrite push_SS in H.
        destruct (match start with Some i => in_range cfg i | None => true end) eqn:R1; cbn [andb] in H; [|discriminate]. inversion H; subst x0 s'.
        exists None, None, [], [x], a1, l1.
        split; [reflexivity|]. split; [reflexivity|]. split; [exact W1|]. split; [reflexivity|]. split; [reflexivity|].
        split; [right; exists v1, i1, []; split; [rewrite Ex at 1; reflexivity | reflexivity] | apply (Hst tt eq_refl)].
    + cbn [pbind] in H. cbn [cur SS] in H. rewrite push_SS in H.
      destruct (match start with Some i => in_range cfg i | None => true end) eqn:R1; cbn [andb] in H; [|discriminate]. inversion H; subst x0 s'.
      exists None, None, [], [], x, r. split; [reflexivity|]. split; [reflexivity|]. split; [exact W|]. split; [reflexivity|]. split; [reflexivity|].
      split; [left; split; reflexivity | apply (Hst tt eq_refl)].
Qed.

Lemma p_slice_eq s0 : p_slice cfg s0 =
  (dop b1, s <- maybe_index s0;
   let '(start, s) := if b1 then (Some (int_of_index (tval (cur s))), adv s) else (None, s) in
   if negb (is_ty T_COLON s) then err_cur ESyntax s else slice_rest (cur s0) start (adv s)).
Proof. reflexivity. Qed.

(* a slice selector: the tokens from its first one to the one before the follower n *)
Definition SliceOut (In : list token) (x0 : sel) (s' : stream) : Prop :=
  exists a b st ts n r', x0 = SSlice a b st /\ In = ts ++ n :: r' /\ wf (n :: r') /\ s' = SP n n r' /\ SelT cfg (SSlice a b st) ts.

Lemma slice_sound_colon c r x0 s' : wf (c :: r) -> ty c = T_COLON -> p_slice cfg (SS c r) = POk x0 s' -> SliceOut (c :: r) x0 s'.
Proof.
  intros W Tc H. rewrite p_slice_eq in H. rewrite mi_other in H by (cbn [cur SS]; congruence). cbn [pbind] in H. cbv beta iota in H.
  rewrite is_ty_SS, Tc in H. cbn [ttype_eqb ttype_code Z.eqb Pos.eqb negb] in H. destruct (colon_tok c Tc) as (v & i & Ec).
  nxt W as a1 l1 W1. rewrite (adv_SS c a1 l1) in H by congruence.
  destruct (slice_rest_sound _ _ _ _ _ _ W1 H) as (stop & step & tb & tc & n & r' & E0 & E1 & Wn & Es & Hb & Hc & _).
  exists None, stop, step, (c :: tb ++ tc), n, r'. split; [exact E0|]. split; [cbn [app]; rewrite E1, <- app_assoc; reflexivity|]. split; [exact Wn|]. split; [exact Es|].
  rewrite Ec. apply (st_slice cfg None stop step [] tb tc v i); [reflexivity | exact Hb | exact Hc].
Qed.
Lemma slice_sound_index c n0 r x0 s' : wf (c :: n0 :: r) -> ty c = T_INDEX -> ty n0 = T_COLON -> p_slice cfg (SP c n0 r) = POk x0 s' -> SliceOut (c :: n0 :: r) x0 s'.
Proof.
  intros W Tc Tn H. rewrite p_slice_eq in H.
  destruct (maybe_index (SP c n0 r)) as [b1 s1| | |] eqn:E1; cbn [pbind] in H; try discriminate.
  destruct (maybe_index_inv _ _ _ E1) as (-> & Ht & Hf). cbn [cur SP] in *. destruct b1; [|exfalso; apply (Hf eq_refl); exact Tc].
  destruct (Ht eq_refl) as [_ Cx]. cbv beta iota in H. rewrite adv_SP in H. rewrite is_ty_SS, Tn in H. cbn [ttype_eqb ttype_code Z.eqb Pos.eqb negb] in H.
  pose proof (proj1 (proj2 (wf_cons c n0 r W)) Tc) as Ix. destruct (colon_tok n0 Tn) as (v & i & En).
  destruct (wf_cons c n0 r W) as (_ & _ & _ & W1). nxt W1 as a1 l1 W2. rewrite (adv_SS n0 a1 l1) in H by congruence.
  destruct (slice_rest_sound _ _ _ _ _ _ W2 H) as (stop & step & tb & tc & n & r' & E0 & E2 & Wn & Es & Hb & Hc & Hs).
  exists (Some (int_of_index (tval c))), stop, step, (c :: n0 :: tb ++ tc), n, r'. split; [exact E0|]. split; [cbn [app]; rewrite E2, <- app_assoc; reflexivity|]. split; [exact Wn|]. split; [exact Es|].
  rewrite En. apply (st_slice cfg (Some (int_of_index (tval c))) stop step [c] tb tc v i); [apply (optI_tok c _ Tc Ix Cx Hs eq_refl) | exact Hb | exact Hc].
Qed.

(* ================= what each parse function returns ============================================================================== *)
(* a filter-query or a function call, before its type is asked for *)
Definition TTu (e : expr) (ts : list token) : Prop :=
  (exists q tq v i, e = ERel q /\ ts = tk T_CURRENT v i :: tq /\ QT cfg q tq) \/
  (exists q tq v i, e = EAbs q /\ ts = tk T_ROOT v i :: tq /\ QT cfg q tq) \/
  (exists f d args ta i v2 i2, e = ECall f args /\ find_assoc f rg = Some d /\ ArgsT cfg (f_args d) args ta /\ ts = tk T_FUNCTION f i :: ta ++ [tk T_RPAREN v2 i2]).
Definition lvl (k : Z) : Prop := k = 7 \/ k = 5 \/ k = 4 \/ k = 3.
Definition nextlt (k : Z) (n : token) : Prop := match binary_operator (ty n) with Some _ => precedence_of (ty n) < k | None => True end.
(* the expression e read from the tokens ts, followed by the token n *)
Definition Cls (p : Z) (e : expr) (ts : list token) (n : token) : Prop :=
  (exists v t, e = ELit v /\ ts = [t] /\ lit_tok v t) \/
  TTu e ts \/
  (exists k, ET cfg k e ts /\ lvl k /\ p <= k /\ nextlt k n /\
     (is_compound e = false -> is_comparison_tok (ty n) = false /\ exists lp tl, ts = lp :: tl /\ ty lp = T_LPAREN)).

Definition OutE (p : Z) (In : list token) (r : pres (expr * Z)) : Prop :=
  match r with
  | POk (e, _) s' => exists ts n r', In = ts ++ n :: r' /\ wf (n :: r') /\ Sh s' (n :: r') /\ stopsZ p (ty n) = true /\ Cls p e ts n
  | _ => True
  end.
Definition OutP (In : list token) (r : pres (expr * Z)) : Prop :=
  match r with
  | POk (e, _) s' => exists ts n r', In = ts ++ n :: r' /\ wf (n :: r') /\ Sh s' (n :: r') /\ Cls 7 e ts n
  | _ => True
  end.
Definition OutQ (inf : bool) (In : list token) (r : pres (list seg)) : Prop :=
  match r with
  | POk q s' => exists ts n r', In = ts ++ n :: r' /\ wf (n :: r') /\ qstop (ty n) = true /\ QT cfg q ts /\ s' = (if inf then SP n n r' else SS n r')
  | _ => True
  end.
(* the tokens of one segment without its "..": a name, a wildcard, or a bracketed selection *)
Definition SegToks (ss : list sel) (ts : list token) : Prop :=
  (exists k i, ss = [SName k] /\ ts = [tk T_PROPERTY k i]) \/ (exists v i, ss = [SWild] /\ ts = [tk T_WILD v i]) \/
  (exists t v1 i1 v2 i2, ts = tk T_LBRACKET v1 i1 :: t ++ [tk T_RBRACKET v2 i2] /\ SelsT cfg ss t).
Definition OutS (In : list token) (r : pres (list sel)) : Prop :=
  match r with
  | POk ss s' => exists ts last r', In = ts ++ r' /\ wf r' /\ r' <> [] /\ s' = SS last r' /\ ty last <> T_EOF /\ SegToks ss ts
  | _ => True
  end.
Definition OutB (In : list token) (r : pres (list sel)) : Prop :=
  match r with
  | POk ss s' => exists ts rb r', In = ts ++ rb :: r' /\ ty rb = T_RBRACKET /\ wf (rb :: r') /\ s' = SS rb r' /\ ((ts = [] /\ ss = []) \/ SelsT cfg ss ts)
  | _ => True
  end.
Definition OutF (In : list token) (r : pres sel) : Prop :=
  match r with
  | POk x s' => exists ts n r', In = ts ++ n :: r' /\ wf (n :: r') /\ Sh s' (n :: r') /\ SelT cfg x ts
  | _ => True
  end.
(* arguments: each with the flag "written in parentheses, nothing after the closing one" *)
Definition ACls (e : expr) (g : bool) (ts : list token) : Prop :=
  (exists v t, e = ELit v /\ ts = [t] /\ lit_tok v t) \/ TTu e ts \/
  (exists k, ET cfg k e ts /\ lvl k /\ (is_compound e = false -> g = true)).
Inductive ArgsCls : list (expr * bool) -> list token -> Prop :=
| ac_nil : ArgsCls [] []
| ac_one e g t : ACls e g t -> ArgsCls [(e, g)] t
| ac_cons e g t v i rest trest : ACls e g t -> ArgsCls rest trest -> rest <> [] -> ArgsCls ((e, g) :: rest) (t ++ tk T_COMMA v i :: trest).
Definition OutA (In : list token) (r : pres (list (expr * bool))) : Prop :=
  match r with
  | POk argsg s' => exists ts rp r', In = ts ++ rp :: r' /\ ty rp = T_RPAREN /\ wf (rp :: r') /\ s' = SS rp r' /\ ArgsCls argsg ts
  | _ => True
  end.

(* ================= from the classification to the grammar ========================================================================= *)
Lemma et_facts k e ts : ET cfg k e ts -> is_literal e = false /\ value_function cfg e = false /\ ts <> [].
Proof.
  intros H. destruct (grammar_parses cfg) as (_ & _ & _ & _ & HE & _). destruct (HE k e ts H) as ((y & tl & -> & _) & A & B & _). repeat split; try assumption. discriminate.
Qed.
Lemma et_dn k e t : ET cfg k e t -> lvl k -> ET cfg 3 e t /\ (4 <= k -> ET cfg 4 e t) /\ (5 <= k -> ET cfg 5 e t).
Proof.
  intros H [-> | [-> | [-> | ->]]].
  - repeat split; intros; [apply et_34, et_45, et_57; exact H | apply et_45, et_57; exact H | apply et_57; exact H].
  - repeat split; intros; [apply et_34, et_45; exact H | apply et_45; exact H | exact H].
  - repeat split; intros; [apply et_34; exact H | exact H | lia].
  - repeat split; intros; [exact H | lia | lia].
Qed.
Lemma nextlt7 n : nextlt 7 n.
Proof. unfold nextlt. destruct (ty n); cbn; try exact I; lia. Qed.

Lemma ttu_tt want e ts : TTu e ts ->
  (want = TValue -> non_comparable cfg e = None) -> (want <> TValue -> value_function cfg e = false) ->
  (want = TNodes -> carg cfg TNodes e = true) -> TT cfg want e ts.
Proof.
  intros [(q & tq & v & i & -> & -> & HQ) | [(q & tq & v & i & -> & -> & HQ) | (f & d & args & ta & i & v2 & i2 & -> & Ef & HA & ->)]] Hv Hl Hn.
  - apply tt_rel; [exact HQ|]. intros E. specialize (Hv E). unfold non_comparable in Hv. cbn [is_compound is_filter_query query_of andb] in Hv.
    rewrite <- m_singular_eq. destruct (m_singular q); [reflexivity | discriminate].
  - apply tt_abs; [exact HQ|]. intros E. specialize (Hv E). unfold non_comparable in Hv. cbn [is_compound is_filter_query query_of andb] in Hv.
    rewrite <- m_singular_eq. destruct (m_singular q); [reflexivity | discriminate].
  - eapply tt_call; [exact Ef | | exact HA]. destruct want.
    + specialize (Hv eq_refl). unfold non_comparable, function_return_type in Hv. cbn [is_compound is_filter_query andb] in Hv. rewrite Ef in Hv. destruct (f_ret d); try discriminate; reflexivity.
    + specialize (Hl ltac:(discriminate)). unfold value_function, function_return_type in Hl. rewrite Ef in Hl. cbn [opt_ty_is] in Hl. destruct (f_ret d); try discriminate; reflexivity.
    + specialize (Hn eq_refl). unfold carg, function_return_type in Hn. rewrite Ef in Hn. cbn [is_filter_query orb opt_ty_is] in Hn. destruct (f_ret d); try discriminate; reflexivity.
Qed.

Lemma cls_logical p e ts n : p <= 7 -> Cls p e ts n -> is_literal e = false -> value_function cfg e = false ->
  exists k, ET cfg k e ts /\ lvl k /\ p <= k /\ nextlt k n.
Proof.
  intros Hp [(v & t & -> & _) | [HT | (k & HE & Hk & Hpk & Hn & _)]] Hl Hv; [discriminate | | exists k; auto].
  exists 7. split; [apply et_test; apply (ttu_tt TLogical e ts HT); [discriminate | intros _; exact Hv | discriminate]|]. split; [left; reflexivity|]. split; [exact Hp | apply nextlt7].
Qed.

Lemma compound_noncomp e : is_compound e = true -> non_comparable cfg e <> None.
Proof. intros H. unfold non_comparable. rewrite H. discriminate. Qed.
Lemma cls_cmp_lhs p e ts n : Cls p e ts n -> non_comparable cfg e = None -> is_comparison_tok (ty n) = true -> CT cfg e ts.
Proof.
  intros [(v & t & -> & -> & Hl) | [HT | (k & _ & _ & _ & _ & Hc)]] Hn Hcmp.
  - apply ct_lit. exact Hl.
  - apply ct_test. apply (ttu_tt TValue e ts HT); [intros _; exact Hn | congruence | discriminate].
  - destruct (is_compound e) eqn:Ec; [exfalso; exact (compound_noncomp e Ec Hn)|]. destruct (Hc eq_refl) as [Hf _]. congruence.
Qed.
Lemma cls_cmp_rhs p e y tl n : Cls p e (y :: tl) n -> non_comparable cfg e = None -> ty y <> T_LPAREN -> CT cfg e (y :: tl).
Proof.
  intros [(v & t & -> & E & Hl) | [HT | (k & _ & _ & _ & _ & Hc)]] Hn Hy.
  - rewrite E. apply ct_lit. exact Hl.
  - apply ct_test. apply (ttu_tt TValue e _ HT); [intros _; exact Hn | congruence | discriminate].
  - destruct (is_compound e) eqn:Ec; [exfalso; exact (compound_noncomp e Ec Hn)|]. destruct (Hc eq_refl) as [_ (lp & tl' & E & Hlp)]. inversion E; subst. contradiction.
Qed.

Lemma et7_inv e ts : ET cfg 7 e ts ->
  (exists t v1 i1 v2 i2, ts = tk T_LPAREN v1 i1 :: t ++ [tk T_RPAREN v2 i2] /\ ET cfg 3 e t) \/
  (exists y tl, ts = y :: tl /\ ty y = T_NOT) \/ TT cfg TLogical e ts.
Proof.
  intros H. inversion H; subst.
  - left. eauto 10.
  - right. left. eexists; eexists; split; reflexivity.
  - right. left. eexists; eexists; split; reflexivity.
  - right. right. assumption.
Qed.

(* ================= one function at a time (the callees' statements are hypotheses) ================================================ *)
Definition OutL (p : Z) (e0 : expr) (ts0 U : list token) (r : pres (expr * Z)) : Prop :=
  match r with
  | POk (e, _) s' => exists ts n r', ts0 ++ U = ts ++ n :: r' /\ wf (n :: r') /\ Sh s' (n :: r') /\ stopsZ p (ty n) = true /\ Cls p e ts n /\
                       (is_compound e = false -> e = e0 /\ ts = ts0 /\ n :: r' = U)
  | _ => True
  end.

Definition H_query (f : nat) := forall inf c r, wf (c :: r) -> OutQ inf (c :: r) (p_query cfg f inf (SS c r)).
Definition H_sel (f : nat) := forall c r, wf (c :: r) -> seghd (ty c) -> OutS (c :: r) (p_selectors cfg f (SS c r)).
Definition H_br (f : nat) := forall c r, wf (c :: r) -> OutB (c :: r) (p_bracket_loop cfg f (SS c r)).
Definition H_fs (f : nat) := forall c r, wf (c :: r) -> ty c = T_FILTER -> OutF (c :: r) (p_filter_selector cfg f (SS c r)).
Definition H_fe (f : nat) := forall p c r, p <= 7 -> wf (c :: r) -> OutE p (c :: r) (p_fexpr cfg f p (SS c r)).
Definition H_fl (f : nat) := forall p lhs s ts0 n r', p <= 7 -> wf (n :: r') -> Sh s (n :: r') -> Cls p (fst lhs) ts0 n ->
  OutL p (fst lhs) ts0 (n :: r') (p_fexpr_loop cfg f p lhs s).
Definition H_pr (f : nat) := forall c r, wf (c :: r) -> OutP (c :: r) (p_primary cfg f (SS c r)).

(* --- bracketed selections ------------------------------------------------------------------------------------------------------- *)
Lemma tail_sound f x In ts s' n r' : H_br f -> wf (n :: r') -> Sh s' (n :: r') -> In = ts ++ n :: r' -> SelT cfg x ts ->
  OutB In (tail cfg f x s').
Proof.
  intros Hbr W HS EIn Hx. unfold tail. rewrite (sh_peek_ty _ _ _ HS).
  destruct (ttype_eqb (ty n) T_EOF) eqn:Ee; [exact I|]. apply teq_false in Ee. cbv zeta.
  destruct (sh_after_peek _ _ _ HS) as [c0 Eap]. rewrite Eap. rewrite ?peek_ty_SP, ?after_peek_SP, ?adv_SP.
  destruct (ttype_eqb (ty n) T_RBRACKET) eqn:Er; cbn [negb].
  - (* closing bracket next *) apply teq_true in Er. cbn [pbind]. rewrite adv_SP.
    destruct f as [|f']; [exact I|]. rewrite pbl_unfold. rewrite is_ty_SS, Er. cbn [ttype_eqb ttype_code Z.eqb Pos.eqb pbind OutB].
    exists ts, n, r'. repeat split; try assumption. right. apply ss_one. exact Hx.
  - destruct (ttype_eqb (ty n) T_COMMA) eqn:Ec; cbn [negb]; [|exact I]. apply teq_true in Ec.
    nxt W as y l1 W1. rewrite peek_ty_SS by congruence.
    destruct (ttype_eqb (ty y) T_RBRACKET) eqn:Ey; [exact I|]. cbn [pbind]. rewrite after_peek_SS by congruence. rewrite adv_SP.
    specialize (Hbr y l1 W1). destruct (p_bracket_loop cfg f (SS y l1)) as [xs s2| | |]; cbn [pbind OutB] in *; try exact I.
    destruct Hbr as (ts2 & rb & r2 & E2 & Trb & Wrb & Es2 & Hxs).
    destruct Hxs as [[-> ->] | Hxs].
    + (* "x ," followed at once by the closing bracket: excluded by the test above *) cbn [app] in E2. inversion E2; subst. apply teq_false in Ey. contradiction.
    + exists (ts ++ n :: ts2), rb, r2. split; [rewrite EIn, E2, <- app_assoc; reflexivity|]. split; [exact Trb|]. split; [exact Wrb|]. split; [exact Es2|].
      right. rewrite (tk_eta n), Ec. apply ss_cons; assumption.
Qed.

Lemma idx_text2 v : idx_wf v -> (((1 <? zlen v) && starts_with [48%N] v) || starts_with [45%N; 48%N] v) = false -> int_text_ok v (int_of_index v).
Proof.
  intros (sign & body & -> & Hs & Hb & Hd) Hc. split; [destruct Hs as [-> | ->]; [exact Hb | discriminate]|]. split; [reflexivity|]. split; [exists sign, body; auto | exact Hc].
Qed.

Lemma br_sound f : H_br f -> H_fs f -> H_br (S f).
Proof.
  intros Hbr Hfs c r W. rewrite pbl_unfold. rewrite is_ty_SS. destruct (ttype_eqb (ty c) T_RBRACKET) eqn:Erb.
  { apply teq_true in Erb. cbn [OutB]. exists [], c, r. repeat split; auto. }
  apply teq_false in Erb. unfold cty. cbn [cur SS].
  destruct (ty c) eqn:Tc; cbn [pbind OutB]; try exact I.
  - (* ':' first *) destruct (p_slice cfg (SS c r)) as [x s'| | |] eqn:Es; cbn [pbind]; try exact I.
    destruct (slice_sound_colon c r x s' W Tc Es) as (a & b & st & ts & n & r' & -> & EIn & Wn & -> & Hx).
    apply (tail_sound f _ _ ts _ n r' Hbr Wn (sh_SP n n r') EIn Hx).
  - (* filter *) specialize (Hfs c r W Tc). destruct (p_filter_selector cfg f (SS c r)) as [x s'| | |]; cbn [pbind OutF] in *; try exact I.
    destruct Hfs as (ts & n & r' & EIn & Wn & HS & Hx). apply (tail_sound f _ _ ts _ n r' Hbr Wn HS EIn Hx).
  - (* index or slice *) assert (Hc : ty c <> T_EOF) by congruence. nxt W as y l1 W1. rewrite peek_ty_SS by exact Hc.
    destruct (ttype_eqb (ty y) T_COLON) eqn:Ey.
    + apply teq_true in Ey. rewrite after_peek_SS by exact Hc.
      destruct (p_slice cfg (SP c y l1)) as [x s'| | |] eqn:Es; cbn [pbind]; try exact I.
      destruct (slice_sound_index c y l1 x s' ltac:(assumption) Tc Ey Es) as (a & b & st & ts & n & r' & -> & EIn & Wn & -> & Hx).
      apply (tail_sound f _ _ ts _ n r' Hbr Wn (sh_SP n n r') EIn Hx).
    + cbv zeta. rewrite after_peek_SS by exact Hc. cbn [cur SP].
      destruct (((1 <? zlen (tval c)) && starts_with [48%N] (tval c)) || starts_with [45%N; 48%N] (tval c)) eqn:Elz; [exact I|].
      destruct (in_range cfg (int_of_index (tval c))) eqn:Er; [|exact I]. cbn [pbind].
      assert (Hx : SelT cfg (SIndex (int_of_index (tval c))) [c]).
      { rewrite (tk_eta c) at 2. rewrite Tc. apply st_index; [apply idx_text2; [|exact Elz]|exact Er]. apply (proj1 (proj2 (wf_cons c y l1 ltac:(assumption))) Tc). }
      apply (tail_sound f _ _ [c] _ y l1 Hbr W1 (sh_SP c y l1) eq_refl Hx).
  - (* '*' *) cbn [pbind]. assert (Hc : ty c <> T_EOF) by congruence. nxt W as y l1 W1.
    apply (tail_sound f _ _ [c] _ y l1 Hbr W1 (sh_SS c _ Hc) eq_refl). rewrite (tk_eta c), Tc. apply st_wild.
  - (* "..." *) destruct (decode_string_literal c) as [nm|ce o|x|] eqn:Ed; cbn [pbind]; try exact I.
    assert (Hc : ty c <> T_EOF) by congruence. nxt W as y l1 W1.
    apply (tail_sound f _ _ [c] _ y l1 Hbr W1 (sh_SS c _ Hc) eq_refl). apply st_name; [right; exact Tc | exact Ed].
  - (* '...' *) destruct (decode_string_literal c) as [nm|ce o|x|] eqn:Ed; cbn [pbind]; try exact I.
    assert (Hc : ty c <> T_EOF) by congruence. nxt W as y l1 W1.
    apply (tail_sound f _ _ [c] _ y l1 Hbr W1 (sh_SS c _ Hc) eq_refl). apply st_name; [left; exact Tc | exact Ed].
Qed.

(* --- segments and queries ------------------------------------------------------------------------------------------------------- *)
Lemma sel_sound f : H_br f -> H_sel (S f).
Proof.
  intros Hbr c r W Hh. rewrite p_selectors_S. unfold cty. cbn [cur SS].
  assert (Hc : ty c <> T_EOF) by (destruct Hh as [E | [E | E]]; rewrite E; discriminate). pose proof W as W0. nxt W as y l1 W1.
  destruct Hh as [E | [E | E]]; rewrite E.
  - cbn [OutS]. exists [c], c, (y :: l1). repeat split; try assumption; try discriminate. left. exists (tval c), (tidx c). split; [reflexivity|]. rewrite (tk_eta c) at 1. rewrite E. reflexivity.
  - cbn [OutS]. exists [c], c, (y :: l1). repeat split; try assumption; try discriminate. right. left. exists (tval c), (tidx c). split; [reflexivity|]. rewrite (tk_eta c) at 1. rewrite E. reflexivity.
  - cbv zeta. rewrite adv_SS by exact Hc. specialize (Hbr y l1 W1).
    destruct (p_bracket_loop cfg f (SS y l1)) as [ss s'| | |]; cbn [pbind OutB] in *; try exact I.
    destruct Hbr as (ts & rb & r' & E1 & Trb & Wrb & -> & Hss). destruct Hss as [[-> ->] | Hss]; [exact I|].
    destruct ss as [|s0 ss']; [inversion Hss|]. cbn [OutS].
    assert (Hrb : ty rb <> T_EOF) by congruence. pose proof Wrb as Wrb0. nxt Wrb as z l2 W2.
    exists (c :: ts ++ [rb]), rb, (z :: l2). split; [cbn [app]; rewrite E1, <- app_assoc; reflexivity|]. split; [exact W2|]. split; [discriminate|]. split; [reflexivity|]. split; [exact Hrb|].
    right. right. exists ts, (tval c), (tidx c), (tval rb), (tidx rb). split; [|exact Hss]. rewrite (tk_eta c) at 1. rewrite (tk_eta rb) at 1. rewrite E, Trb. reflexivity.
Qed.

Lemma segtoks_child ss ts : SegToks ss ts -> SegT cfg (Child ss) ts.
Proof. intros [(k & i & -> & ->) | [(v & i & -> & ->) | (t & v1 & i1 & v2 & i2 & -> & H)]]; [apply sg_prop | apply sg_wild | apply sg_br; exact H]. Qed.
Lemma segtoks_desc ss ts v i : SegToks ss ts -> SegT cfg (Desc ss) (tk T_DOUBLE_DOT v i :: ts).
Proof. intros [(k & i0 & -> & ->) | [(v0 & i0 & -> & ->) | (t & v1 & i1 & v2 & i2 & -> & H)]]; [apply sg_dprop | apply sg_dwild | apply sg_dbr; exact H]. Qed.

Lemma query_sound f : H_query f -> H_sel f -> H_query (S f).
Proof.
  intros Hq Hs inf c r W. rewrite p_query_S. rewrite !is_ty_SS.
  destruct (ttype_eqb (ty c) T_DOUBLE_DOT) eqn:Edd.
  - apply teq_true in Edd. assert (Hc : ty c <> T_EOF) by congruence. pose proof W as W0. nxt W as y l1 W1. rewrite adv_SS by exact Hc.
    pose proof (proj1 (proj2 (proj2 (wf_cons c y l1 W0))) Edd) as Hy. specialize (Hs y l1 W1 Hy).
    destruct (p_selectors cfg f (SS y l1)) as [ss s1| | |]; cbn [pbind OutS] in *; try exact I.
    destruct Hs as (ts1 & last & r1 & E1 & Wr1 & Hne & -> & Hlast & Hseg). destruct r1 as [|z l2]; [congruence|]. rewrite adv_SS by exact Hlast.
    specialize (Hq inf z l2 Wr1). destruct (p_query cfg f inf (SS z l2)) as [q s2| | |]; cbn [pbind OutQ] in *; try exact I.
    destruct Hq as (ts2 & n & r' & E2 & Wn & Hn & HQ & ->).
    exists ((c :: ts1) ++ ts2), n, r'. split; [cbn [app]; rewrite E1, E2, <- app_assoc; reflexivity|]. split; [exact Wn|]. split; [exact Hn|]. split; [|reflexivity].
    apply qt_cons; [|exact HQ]. rewrite (tk_eta c), Edd. apply segtoks_desc. exact Hseg.
  - destruct (ttype_eqb (ty c) T_LBRACKET || ttype_eqb (ty c) T_PROPERTY || ttype_eqb (ty c) T_WILD) eqn:Eh.
    + assert (Hh : seghd (ty c)).
      { apply orb_true_iff in Eh as [Eh | Eh]; [apply orb_true_iff in Eh as [Eh | Eh]|]; apply teq_true in Eh; unfold seghd; auto. }
      specialize (Hs c r W Hh). destruct (p_selectors cfg f (SS c r)) as [ss s1| | |]; cbn [pbind OutS] in *; try exact I.
      destruct Hs as (ts1 & last & r1 & E1 & Wr1 & Hne & -> & Hlast & Hseg). destruct r1 as [|z l2]; [congruence|]. rewrite adv_SS by exact Hlast.
      specialize (Hq inf z l2 Wr1). destruct (p_query cfg f inf (SS z l2)) as [q s2| | |]; cbn [pbind OutQ] in *; try exact I.
      destruct Hq as (ts2 & n & r' & E2 & Wn & Hn & HQ & ->).
      exists (ts1 ++ ts2), n, r'. split; [rewrite E1, E2, <- app_assoc; reflexivity|]. split; [exact Wn|]. split; [exact Hn|]. split; [|reflexivity].
      apply qt_cons; [apply segtoks_child; exact Hseg | exact HQ].
    + cbn [OutQ]. exists [], c, r. split; [reflexivity|]. split; [exact W|]. split.
      { apply teq_false in Edd. apply orb_false_iff in Eh as [Eh E3]. apply orb_false_iff in Eh as [E1 E2]. apply teq_false in E1, E2, E3. unfold qstop. destruct (ty c); try reflexivity; congruence. }
      split; [apply qt_nil|]. destruct inf; reflexivity.
Qed.

(* --- the filter selector ----------------------------------------------------------------------------------------------------------- *)
Lemma fs_sound f : H_fe f -> H_fs (S f).
Proof.
  intros Hfe c r W Tc. rewrite p_filter_selector_S. cbv zeta. assert (Hc : ty c <> T_EOF) by congruence. nxt W as y l1 W1. rewrite adv_SS by exact Hc.
  assert (H17 : PRECEDENCE_LOWEST <= 7) by (unfold PRECEDENCE_LOWEST; lia). specialize (Hfe PRECEDENCE_LOWEST y l1 H17 W1).
  destruct (p_fexpr cfg f PRECEDENCE_LOWEST (SS y l1)) as [[e i] s'| | |]; cbn [pbind OutE] in *; try exact I.
  destruct Hfe as (ts & n & r' & E1 & Wn & HS & _ & Hcls).
  destruct (value_function cfg e) eqn:Ev; [exact I|]. destruct (is_literal e) eqn:El; [exact I|]. cbn [OutF].
  destruct (cls_logical _ _ _ _ H17 Hcls El Ev) as (k & HE & Hk & _ & _).
  exists (c :: ts), n, r'. split; [cbn [app]; rewrite E1; reflexivity|]. split; [exact Wn|]. split; [exact HS|].
  rewrite (tk_eta c), Tc. apply st_filter. apply (et_dn k e ts HE Hk).
Qed.

(* --- expressions -------------------------------------------------------------------------------------------------------------------- *)
Lemma cls_weaken p p' e ts n : p' <= p -> Cls p e ts n -> Cls p' e ts n.
Proof. intros Hp [H | [H | (k & A & B & C & D)]]; [left; exact H | right; left; exact H | right; right; exists k; repeat split; try tauto; lia]. Qed.

Lemma p_literal_inv c r e i s' : p_literal (SS c r) = POk (e, i) s' -> s' = SS c r /\ exists v, e = ELit v /\ lit_tok v c.
Proof.
  unfold p_literal. cbn [cur SS]. destruct (ty c) eqn:Tc; try discriminate; cbv zeta.
  - (* dq *) destruct (decode_string_literal c) as [st| | |] eqn:Ed; try discriminate. intros H; inversion H; subst. split; [reflexivity|]. exists (JStr st). split; [reflexivity|].
    unfold lit_tok. right. right. right. left. split; [auto | eauto].
  - intros H; inversion H; subst. split; [reflexivity|]. exists (JBool false). split; [reflexivity|]. unfold lit_tok. right. left. auto.
  - destruct (has_leading_zero (tval c)) eqn:Ez; [unfold err_cur; discriminate|]. destruct (py_float (tval c)) as [x|] eqn:Ef; [|unfold err_cur; discriminate].
    intros H; inversion H; subst. split; [reflexivity|]. exists (JNum x). split; [reflexivity|]. unfold lit_tok. right. right. right. right. right. split; [exact Tc|]. split; [exact Ez|]. eauto.
  - destruct (has_leading_zero (tval c)) eqn:Ez; [unfold err_cur; discriminate|]. destruct (py_float (tval c)) as [x|] eqn:Ef; [|unfold err_cur; discriminate].
    destruct (py_int_of_float x) as [z|] eqn:Ei; intros H; inversion H; subst.
    + split; [reflexivity|]. exists (JNum (NInt z)). split; [reflexivity|]. unfold lit_tok. right. right. right. right. left. split; [exact Tc|]. split; [exact Ez|]. exists x. rewrite Ei. split; [exact Ef | reflexivity].
    + split; [reflexivity|]. exists (JNum x). split; [reflexivity|]. unfold lit_tok. right. right. right. right. left. split; [exact Tc|]. split; [exact Ez|]. exists x. rewrite Ei. split; [exact Ef | reflexivity].
  - intros H; inversion H; subst. split; [reflexivity|]. exists JNull. split; [reflexivity|]. unfold lit_tok. right. right. left. auto.
  - (* sq *) destruct (decode_string_literal c) as [st| | |] eqn:Ed; try discriminate. intros H; inversion H; subst. split; [reflexivity|]. exists (JStr st). split; [reflexivity|].
    unfold lit_tok. right. right. right. left. split; [auto | eauto].
  - intros H; inversion H; subst. split; [reflexivity|]. exists (JBool true). split; [reflexivity|]. unfold lit_tok. left. auto.
Qed.
Lemma lit_tok_noteof v c : lit_tok v c -> ty c <> T_EOF /\ ty c <> T_LPAREN.
Proof. unfold lit_tok. intros [[E _] | [[E _] | [[E _] | [[[E | E] _] | [[E _] | [E _]]]]]]; rewrite E; split; discriminate. Qed.

Definition H_in (f : nat) :=
  (forall lhs s, binary_operator (ty (cur s)) = None -> forall a s', p_infix cfg f lhs s <> POk a s') /\
  (forall lhs op r ts0 p0, wf (op :: r) -> Cls p0 (fst lhs) ts0 op ->
     match p_infix cfg f lhs (SS op r) with
     | POk (e', _) s' => exists ts2 n r', r = ts2 ++ n :: r' /\ wf (n :: r') /\ Sh s' (n :: r') /\ stopsZ (precedence_of (ty op)) (ty n) = true /\
                           Cls (precedence_of (ty op)) e' (ts0 ++ op :: ts2) n /\ is_compound e' = true
     | _ => True
     end).
Definition H_gr (f : nat) := forall c r, wf (c :: r) -> ty c = T_LPAREN -> OutP (c :: r) (p_grouped cfg f (SS c r)).
Definition H_gl (f : nat) := forall e c r, binary_operator (ty c) = None ->
  match p_grouped_loop cfg f e (SS c r) with POk e' s' => e' = e /\ s' = SS c r /\ ty c = T_RPAREN | _ => True end.
Definition H_pf (f : nat) := forall c r, wf (c :: r) -> ty c = T_NOT -> OutP (c :: r) (p_prefix cfg f (SS c r)).
Definition H_fn (f : nat) := forall c r, wf (c :: r) -> ty c = T_FUNCTION -> OutP (c :: r) (p_function cfg f (SS c r)).
Definition H_al (f : nat) := forall c r, wf (c :: r) -> OutA (c :: r) (p_args_loop cfg f (SS c r)).

Lemma fexpr_sound f : H_pr f -> H_fl f -> H_fe (S f).
Proof.
  intros Hpr Hfl p c r Hp W. rewrite fexpr_S. destruct (negb (in_token_map (cty (SS c r)))); [exact I|].
  specialize (Hpr c r W). destruct (p_primary cfg f (SS c r)) as [[e i] s0| |x s0|]; cbn [OutP] in *; try exact I; [|destruct x; exact I].
  destruct Hpr as (ts & n & r' & E1 & Wn & HS & Hc).
  specialize (Hfl p (e, i) s0 ts n r' Hp Wn HS (cls_weaken 7 p e ts n Hp Hc)).
  destruct (p_fexpr_loop cfg f p (e, i) s0) as [[e2 i2] s2| | |]; cbn [OutL OutE] in *; try exact I.
  destruct Hfl as (ts2 & n2 & r2 & E2 & W2 & HS2 & Hst & Hc2 & _). exists ts2, n2, r2. split; [rewrite E1; exact E2|]. auto.
Qed.

Lemma floop_sound f : H_in f -> H_fl f -> H_fl (S f).
Proof.
  intros [_ Hin] Hfl p lhs s ts0 n r' Hp W HS Hc. rewrite floop_S. cbv zeta. rewrite (sh_peek_ty _ _ _ HS).
  assert (Hstop : forall b : bool, stopsZ p (ty n) = true -> OutL p (fst lhs) ts0 (n :: r') (POk lhs (after_peek s))).
  { intros _ Hs. destruct lhs as [e i]. cbn [OutL]. exists ts0, n, r'. split; [reflexivity|]. split; [exact W|]. split; [apply sh_after_peek_sh; exact HS|]. split; [exact Hs|]. split; [exact Hc | auto]. }
  destruct (ttype_eqb (ty n) T_EOF || ttype_eqb (ty n) T_RBRACKET || (precedence_of (ty n) <? p)) eqn:E.
  - apply (Hstop true). unfold stopsZ. apply orb_true_iff in E as [E | E]; [|rewrite E; reflexivity].
    apply orb_true_iff in E as [E | E]; apply teq_true in E; rewrite E; cbn [binary_operator]; apply orb_true_r.
  - destruct (binary_operator (ty n)) as [b|] eqn:Eb; [|apply (Hstop true); unfold stopsZ; rewrite Eb; apply orb_true_r].
    destruct (sh_after_peek _ _ _ HS) as [c0 Eap]. rewrite Eap, adv_SP.
    specialize (Hin lhs n r' ts0 p W Hc). destruct (p_infix cfg f lhs (SS n r')) as [[e' i'] s2| | |]; cbn [pbind]; try exact I.
    destruct Hin as (ts2 & n2 & r2 & E2 & W2 & HS2 & Hst2 & Hc2 & Hcomp).
    assert (Hge : p <= precedence_of (ty n)) by (apply orb_false_iff in E as [_ E]; apply Z.ltb_ge in E; exact E).
    specialize (Hfl p (e', i') s2 (ts0 ++ n :: ts2) n2 r2 Hp W2 HS2 (cls_weaken _ p _ _ _ Hge Hc2)).
    destruct (p_fexpr_loop cfg f p (e', i') s2) as [[e3 i3] s3| | |]; cbn [OutL] in *; try exact I.
    destruct Hfl as (ts3 & n3 & r3 & E3 & W3 & HS3 & Hst3 & Hc3 & Hnc). exists ts3, n3, r3. split; [rewrite <- E3, E2, <- app_assoc; reflexivity|]. split; [exact W3|]. split; [exact HS3|]. split; [exact Hst3|]. split; [exact Hc3|].
    intros Hn3. exfalso. cbn [fst] in Hnc. destruct (Hnc Hn3) as [-> _]. congruence.
Qed.

Lemma primary_sound f : H_gr f -> H_pf f -> H_query f -> H_fn f -> H_pr (S f).
Proof.
  intros Hgr Hpf Hq Hfn c r W. rewrite p_primary_S. unfold cty. cbn [cur SS].
  destruct (ty c) eqn:Tc; try (apply (Hgr c r W Tc)); try (apply (Hpf c r W Tc)); try (apply (Hfn c r W Tc));
    try (destruct (p_literal (SS c r)) as [[e i] s'| | |] eqn:El; try exact I; destruct (p_literal_inv c r e i s' El) as (-> & v & -> & Hl);
         destruct (lit_tok_noteof v c Hl) as [Hc _]; nxt W as y l1 W1; cbn [OutP]; exists [c], y, l1; split; [reflexivity|]; split; [exact W1|]; split; [apply sh_SS; exact Hc|]; left; eauto).
  - (* $ *) cbv zeta. assert (Hc : ty c <> T_EOF) by congruence. nxt W as y l1 W1. rewrite adv_SS by exact Hc. specialize (Hq true y l1 W1).
    destruct (p_query cfg f true (SS y l1)) as [q s'| | |]; cbn [pbind OutQ OutP] in *; try exact I.
    destruct Hq as (ts & n & r' & E1 & Wn & Hn & HQ & ->). exists (c :: ts), n, r'. split; [cbn [app]; rewrite E1; reflexivity|]. split; [exact Wn|]. split; [apply sh_SP|].
    right. left. right. left. exists q, ts, (tval c), (tidx c). split; [reflexivity|]. split; [|exact HQ]. rewrite (tk_eta c) at 1. rewrite Tc. reflexivity.
  - (* @ *) cbv zeta. assert (Hc : ty c <> T_EOF) by congruence. nxt W as y l1 W1. rewrite adv_SS by exact Hc. specialize (Hq true y l1 W1).
    destruct (p_query cfg f true (SS y l1)) as [q s'| | |]; cbn [pbind OutQ OutP] in *; try exact I.
    destruct Hq as (ts & n & r' & E1 & Wn & Hn & HQ & ->). exists (c :: ts), n, r'. split; [cbn [app]; rewrite E1; reflexivity|]. split; [exact Wn|]. split; [apply sh_SP|].
    right. left. left. exists q, ts, (tval c), (tidx c). split; [reflexivity|]. split; [|exact HQ]. rewrite (tk_eta c) at 1. rewrite Tc. reflexivity.
Qed.

Lemma nextlt_of_stops k n : stopsZ k (ty n) = true -> nextlt k n.
Proof. unfold stopsZ, nextlt. destruct (binary_operator (ty n)); [|intros _; exact I]. rewrite orb_false_r. intros H. apply Z.ltb_lt. exact H. Qed.
Lemma cmp_tok_of t o : binary_operator t = Some (BCmp o) -> t = cmp_tok o /\ precedence_of t = 5 /\ is_comparison_tok t = true.
Proof. destruct t; cbn; intros H; try discriminate; inversion H; subst; repeat split. Qed.
Lemma and_tok_of t : binary_operator t = Some BAnd -> t = T_AND /\ precedence_of t = 4.
Proof. destruct t; cbn; intros H; try discriminate; split; reflexivity. Qed.
Lemma or_tok_of t : binary_operator t = Some BOr -> t = T_OR /\ precedence_of t = 3.
Proof. destruct t; cbn; intros H; try discriminate; split; reflexivity. Qed.
Lemma lvl_gt k q : lvl k -> q < k -> (q = 4 -> 5 <= k) /\ (q = 3 -> 4 <= k).
Proof. intros [-> | [-> | [-> | ->]]] H; split; intros ->; lia. Qed.

Lemma infix_sound f : H_fe f -> H_in (S f).
Proof.
  intros Hfe. split.
  - intros lhs s Hb a s' E. rewrite p_infix_S in E. cbv zeta in E. destruct (p_fexpr cfg f (precedence_of (ty (cur s))) (adv s)) as [rhs s1| | |]; cbn [pbind] in E; try discriminate. rewrite Hb in E. discriminate.
  - intros lhs op r ts0 p0 W Hc. rewrite p_infix_S. cbv zeta. cbn [cur SS].
    destruct (binary_operator (ty op)) as [b|] eqn:Eb.
    2:{ destruct (p_fexpr cfg f (precedence_of (ty op)) (adv (SS op r))) as [rhs s1| | |]; cbn [pbind]; exact I. }
    assert (Hop : ty op <> T_EOF) by (intros E; rewrite E in Eb; discriminate). nxt W as y l1 W1. rewrite adv_SS by exact Hop.
    assert (Hp7 : precedence_of (ty op) <= 7) by (destruct (ty op); cbn; lia).
    specialize (Hfe (precedence_of (ty op)) y l1 Hp7 W1).
    destruct (p_fexpr cfg f (precedence_of (ty op)) (SS y l1)) as [[rhs ir] s1| | |]; cbn [pbind OutE fst snd] in *; try exact I.
    destruct Hfe as (ts2 & n & r' & E2 & Wn & HS & Hst & Hcr). destruct lhs as [lhs il]. cbn [fst snd] in *.
    destruct b as [| |o].
    + (* && *) destruct (and_tok_of _ Eb) as [Et Ep]. destruct (is_literal lhs) eqn:L1; [exact I|]. destruct (is_literal rhs) eqn:L2; [exact I|].
      destruct (value_function cfg lhs) eqn:V1; [exact I|]. destruct (value_function cfg rhs) eqn:V2; [exact I|].
      assert (Hp07 : p0 <= 7 \/ 7 < p0) by lia.
      assert (HL : exists k, ET cfg k lhs ts0 /\ lvl k /\ nextlt k op).
      { destruct Hc as [(v & t & -> & _) | [HT | (k & A & B & _ & D & _)]]; [discriminate | | eauto].
        exists 7. split; [apply et_test; apply (ttu_tt TLogical lhs ts0 HT); [discriminate | intros _; exact V1 | discriminate]|]. split; [left; reflexivity | apply nextlt7]. }
      destruct HL as (k1 & HE1 & Hk1 & Hn1). unfold nextlt in Hn1. rewrite Eb, Ep in Hn1.
      destruct (cls_logical _ _ _ _ Hp7 Hcr L2 V2) as (k2 & HE2 & Hk2 & Hpk2 & Hn2). rewrite Ep in Hpk2.
      exists ts2, n, r'. split; [exact E2|]. split; [exact Wn|]. split; [exact HS|]. split; [exact Hst|]. split; [|reflexivity].
      right. right. exists 4. split.
      { rewrite (tk_eta op), Et. apply et_and; [apply (et_dn k1 lhs ts0 HE1 Hk1); apply (lvl_gt k1 4 Hk1 Hn1); reflexivity | apply (et_dn k2 rhs ts2 HE2 Hk2); exact Hpk2]. }
      split; [right; right; left; reflexivity|]. split; [rewrite Ep; lia|]. split; [apply nextlt_of_stops; rewrite <- Ep; exact Hst | discriminate].
    + (* || *) destruct (or_tok_of _ Eb) as [Et Ep]. destruct (is_literal lhs) eqn:L1; [exact I|]. destruct (is_literal rhs) eqn:L2; [exact I|].
      destruct (value_function cfg lhs) eqn:V1; [exact I|]. destruct (value_function cfg rhs) eqn:V2; [exact I|].
      assert (HL : exists k, ET cfg k lhs ts0 /\ lvl k /\ nextlt k op).
      { destruct Hc as [(v & t & -> & _) | [HT | (k & A & B & _ & D & _)]]; [discriminate | | eauto].
        exists 7. split; [apply et_test; apply (ttu_tt TLogical lhs ts0 HT); [discriminate | intros _; exact V1 | discriminate]|]. split; [left; reflexivity | apply nextlt7]. }
      destruct HL as (k1 & HE1 & Hk1 & Hn1). unfold nextlt in Hn1. rewrite Eb, Ep in Hn1.
      destruct (cls_logical _ _ _ _ Hp7 Hcr L2 V2) as (k2 & HE2 & Hk2 & Hpk2 & Hn2).
      exists ts2, n, r'. split; [exact E2|]. split; [exact Wn|]. split; [exact HS|]. split; [exact Hst|]. split; [|reflexivity].
      right. right. exists 3. split.
      { rewrite (tk_eta op), Et. apply et_or; [apply (et_dn k1 lhs ts0 HE1 Hk1); apply (lvl_gt k1 3 Hk1 Hn1); reflexivity | apply (et_dn k2 rhs ts2 HE2 Hk2)]. }
      split; [right; right; right; reflexivity|]. split; [rewrite Ep; lia|]. split; [apply nextlt_of_stops; rewrite <- Ep; exact Hst | discriminate].
    + (* comparison *) destruct (cmp_tok_of _ _ Eb) as (Et & Ep & Ecmp).
      rewrite is_ty_SS. destruct (ttype_eqb (ty y) T_LPAREN) eqn:Ey; [exact I|]. apply teq_false in Ey.
      destruct (non_comparable cfg lhs) eqn:N1; [exact I|]. destruct (non_comparable cfg rhs) eqn:N2; [exact I|].
      assert (Hts2 : exists tl, ts2 = y :: tl).
      { destruct ts2 as [|y' tl]; [|inversion E2; subst; eauto]. exfalso. cbn [app] in E2. inversion E2; subst y l1.
        destruct Hcr as [(v & t & _ & E & _) | [HT | (k & HE & _)]]; [discriminate | | exact (proj2 (proj2 (et_facts _ _ _ HE)) eq_refl)].
        destruct HT as [(q & tq & v & i & _ & E & _) | [(q & tq & v & i & _ & E & _) | (f0 & d & args & ta & i & v2 & i2 & _ & _ & _ & E)]]; discriminate. }
      destruct Hts2 as [tl ->].
      exists (y :: tl), n, r'. split; [exact E2|]. split; [exact Wn|]. split; [exact HS|]. split; [exact Hst|]. split; [|reflexivity].
      right. right. exists 5. split.
      { rewrite (tk_eta op), Et. apply et_cmp; [apply (cls_cmp_lhs p0 lhs ts0 op Hc N1 Ecmp) | apply (cls_cmp_rhs _ rhs y tl n Hcr N2 Ey)]. }
      split; [right; left; reflexivity|]. split; [rewrite Ep; lia|]. split; [apply nextlt_of_stops; rewrite <- Ep; exact Hst | discriminate].
Qed.

Lemma gl_sound f : H_in f -> H_gl (S f).
Proof.
  intros [Hin _] e c r Hb. rewrite p_grouped_loop_S. rewrite !is_ty_SS.
  destruct (ttype_eqb (ty c) T_RPAREN) eqn:E; [apply teq_true in E; auto|]. destruct (ttype_eqb (ty c) T_EOF); [exact I|].
  destruct (p_infix cfg f e (SS c r)) as [a s'| | |] eqn:Ei; cbn [pbind]; try exact I. exfalso. exact (Hin e (SS c r) Hb a s' Ei).
Qed.

Lemma stops1_nobinop t : stopsZ 1 t = true -> binary_operator t = None.
Proof. unfold stopsZ. destruct t; cbn; intros H; try discriminate; reflexivity. Qed.

Lemma grouped_sound f : H_fe f -> H_gl f -> H_gr (S f).
Proof.
  intros Hfe Hgl c r W Tc. rewrite p_grouped_S. assert (Hc : ty c <> T_EOF) by congruence. nxt W as y l1 W1. rewrite adv_SS by exact Hc.
  assert (H17 : PRECEDENCE_LOWEST <= 7) by (unfold PRECEDENCE_LOWEST; lia). specialize (Hfe PRECEDENCE_LOWEST y l1 H17 W1).
  destruct (p_fexpr cfg f PRECEDENCE_LOWEST (SS y l1)) as [[e i] s1| | |]; cbn [pbind OutE] in *; try exact I.
  destruct Hfe as (ts & n & r' & E1 & Wn & HS & Hst & Hcls). rewrite (sh_adv _ _ _ HS).
  specialize (Hgl (e, i) n r' (stops1_nobinop _ Hst)).
  destruct (p_grouped_loop cfg f (e, i) (SS n r')) as [[e2 i2] s2| | |]; cbn [pbind] in *; try exact I.
  destruct Hgl as (E & -> & Tn). inversion E; subst e2 i2. rewrite is_ty_SS, Tn. cbn [ttype_eqb ttype_code Z.eqb Pos.eqb negb fst snd].
  destruct (is_literal e) eqn:El; [exact I|]. destruct (value_function cfg e) eqn:Ev; [exact I|].
  assert (Hn : ty n <> T_EOF) by congruence. nxt Wn as z l2 W2. rewrite peek_ty_SS by exact Hn.
  destruct (is_comparison_tok (ty z)) eqn:Ecmp; [exact I|]. rewrite after_peek_SS by exact Hn. cbn [OutP].
  destruct (cls_logical _ _ _ _ H17 Hcls El Ev) as (k & HE & Hk & _ & _).
  exists (c :: ts ++ [n]), z, l2. split; [cbn [app]; rewrite E1, <- app_assoc; reflexivity|]. split; [exact W2|]. split; [apply sh_SP|].
  right. right. exists 7. split; [rewrite (tk_eta c), (tk_eta n), Tc, Tn; apply et_paren; apply (et_dn k e ts HE Hk)|].
  split; [left; reflexivity|]. split; [lia|]. split; [apply nextlt7|]. intros _. split; [exact Ecmp|]. exists c, (ts ++ [n]). split; [reflexivity | exact Tc].
Qed.

Lemma prefix_sound f : H_fe f -> H_pf (S f).
Proof.
  intros Hfe c r W Tc. rewrite p_prefix_S. cbv zeta. assert (Hc : ty c <> T_EOF) by congruence. nxt W as y l1 W1. rewrite adv_SS by exact Hc. unfold cty. cbn [cur SS].
  assert (H77 : PRECEDENCE_PREFIX <= 7) by (unfold PRECEDENCE_PREFIX; lia). specialize (Hfe PRECEDENCE_PREFIX y l1 H77 W1).
  assert (Hgo : (ty y = T_LPAREN \/ ty y = T_ROOT \/ ty y = T_CURRENT \/ ty y = T_FUNCTION) ->
     OutP (c :: y :: l1) (dop rhs, s <- p_fexpr cfg f PRECEDENCE_PREFIX (SS y l1); if value_function cfg (fst rhs) then PErr EType (snd rhs) else POk (ENot (fst rhs), tidx c) s)).
  { intros Hy. destruct (p_fexpr cfg f PRECEDENCE_PREFIX (SS y l1)) as [[e i] s1| | |]; cbn [pbind OutE fst snd] in *; try exact I.
    destruct Hfe as (ts & n & r' & E1 & Wn & HS & Hst & Hcls). destruct (value_function cfg e) eqn:Ev; [exact I|]. cbn [OutP].
    exists (c :: ts), n, r'. split; [cbn [app]; rewrite E1; reflexivity|]. split; [exact Wn|]. split; [exact HS|].
    right. right. exists 7. split; [|split; [left; reflexivity|]; split; [lia|]; split; [apply nextlt7 | discriminate]].
    rewrite (tk_eta c), Tc.
    assert (Hts : exists tl, ts = y :: tl).
    { destruct ts as [|y' tl]; [|inversion E1; subst; eauto]. exfalso. destruct Hcls as [(v & t & _ & E & _) | [HT | (k & HE & _)]]; [discriminate | | exact (proj2 (proj2 (et_facts _ _ _ HE)) eq_refl)].
      destruct HT as [(q & tq & v & i0 & _ & E & _) | [(q & tq & v & i0 & _ & E & _) | (f0 & d & args & ta & i0 & v2 & i2 & _ & _ & _ & E)]]; discriminate. }
    destruct Hts as [tl ->].
    destruct Hcls as [(v & t & -> & E & Hl) | [HT | (k & HE & Hk & Hpk & _)]].
    - exfalso. inversion E; subst t. destruct (lit_tok_noteof v y Hl) as [_ Hlp]. unfold lit_tok in Hl.
      destruct Hy as [Hy | [Hy | [Hy | Hy]]]; rewrite Hy in Hl; destruct Hl as [[E0 _] | [[E0 _] | [[E0 _] | [[[E0 | E0] _] | [[E0 _] | [E0 _]]]]]]; discriminate.
    - apply et_not_test. apply (ttu_tt TLogical e _ HT); [discriminate | intros _; exact Ev | discriminate].
    - assert (k = 7) by (unfold PRECEDENCE_PREFIX in Hpk; destruct Hk as [-> | [-> | [-> | ->]]]; lia). subst k.
      destruct (et7_inv e _ HE) as [(t & v1 & i1 & v2 & i2 & E & H3) | [(y2 & tl2 & E & Hnot) | HT]].
      + rewrite E. apply et_not_paren. exact H3.
      + exfalso. inversion E; subst. destruct Hy as [Hy | [Hy | [Hy | Hy]]]; congruence.
      + apply et_not_test. exact HT. }
  destruct (ty y) eqn:Ty; try exact I; apply Hgo; auto.
Qed.

(* --- function calls ------------------------------------------------------------------------------------------------------------------ *)
Lemma arg_convert t e g ts : ACls e g ts -> carg cfg t e = true -> (negb g || ty3_eqb t TLogical) = true -> ArgT cfg t e ts.
Proof.
  intros HA Hc Hg. destruct t.
  - (* ValueType *) apply ar_value. destruct HA as [(v & tok & -> & -> & Hl) | [HT | (k & HE & Hk & Hcomp)]].
    + apply ct_lit. exact Hl.
    + apply ct_test. apply (ttu_tt TValue e ts HT); [|congruence | discriminate]. intros _.
      destruct HT as [(q & tq & v & i & -> & _) | [(q & tq & v & i & -> & _) | (f0 & d & args & ta & i & v2 & i2 & -> & Ef & _)]]; unfold carg, non_comparable, function_return_type in *;
        cbn [is_literal is_filter_query is_compound query_of orb andb] in *; [destruct (m_singular q); [reflexivity | discriminate] | destruct (m_singular q); [reflexivity | discriminate]|].
      rewrite Ef in *. cbn [opt_ty_is] in Hc. destruct (f_ret d); try discriminate; reflexivity.
    + exfalso. destruct (et_facts _ _ _ HE) as (L & V & _). destruct (is_compound e) eqn:Ec.
      * unfold carg in Hc. rewrite L in Hc. destruct e; try discriminate.
      * rewrite (Hcomp eq_refl) in Hg. discriminate.
  - (* LogicalType *) apply ar_logical. destruct HA as [(v & tok & -> & -> & Hl) | [HT | (k & HE & Hk & _)]].
    + discriminate.
    + apply et_34, et_45, et_57, et_test. apply (ttu_tt TLogical e ts HT); [discriminate | | discriminate]. intros _.
      destruct HT as [(q & tq & v & i & -> & _) | [(q & tq & v & i & -> & _) | (f0 & d & args & ta & i & v2 & i2 & -> & Ef & _)]]; try reflexivity.
      unfold carg, value_function, function_return_type in *. rewrite Ef in *. cbn [is_filter_query is_compound orb opt_ty_is] in *. destruct (f_ret d); try discriminate; reflexivity.
    + apply (et_dn k e ts HE Hk).
  - (* NodesType *) apply ar_nodes. destruct HA as [(v & tok & -> & -> & Hl) | [HT | (k & HE & Hk & Hcomp)]].
    + discriminate.
    + apply (ttu_tt TNodes e ts HT); [discriminate | | intros _; exact Hc]. intros _.
      destruct HT as [(q & tq & v & i & -> & _) | [(q & tq & v & i & -> & _) | (f0 & d & args & ta & i & v2 & i2 & -> & Ef & _)]]; try reflexivity.
      unfold carg, value_function, function_return_type in *. rewrite Ef in *. cbn [is_filter_query orb opt_ty_is] in *. destruct (f_ret d); try discriminate; reflexivity.
    + exfalso. destruct (et_facts _ _ _ HE) as (L & V & _). destruct (is_compound e) eqn:Ec.
      * unfold carg in Hc. destruct e; try discriminate.
      * rewrite (Hcomp eq_refl) in Hg. discriminate.
Qed.

Lemma args_convert : forall argsg ts, ArgsCls argsg ts -> forall tys, length (map fst argsg) = length tys ->
  check_args cfg tys (map fst argsg) = true -> grouped_ok tys (map snd argsg) = true -> ArgsT cfg tys (map fst argsg) ts.
Proof.
  induction 1 as [|e g t HA|e g t v i rest trest HA HR IH Hne]; intros tys Hlen Hck Hgo.
  - destruct tys; [apply as_nil | discriminate].
  - destruct tys as [|t0 [|t1 tys]]; try discriminate. cbn [map fst snd check_args grouped_ok] in *. apply andb_true_iff in Hck as [Hc _]. apply andb_true_iff in Hgo as [Hg _].
    apply as_one. apply (arg_convert t0 e g t HA Hc Hg).
  - destruct tys as [|t0 tys]; [discriminate|]. cbn [map fst snd check_args grouped_ok length] in *. apply andb_true_iff in Hck as [Hc Hck]. apply andb_true_iff in Hgo as [Hg Hgo].
    apply as_cons; [apply (arg_convert t0 e g t HA Hc Hg) | apply IH; [lia | exact Hck | exact Hgo] | destruct rest; [congruence | discriminate]].
Qed.

Lemma function_sound f : H_al f -> H_fn (S f).
Proof.
  intros Hal c r W Tc. rewrite p_function_S. cbv zeta. cbn [cur SS]. assert (Hc : ty c <> T_EOF) by congruence. nxt W as y l1 W1. rewrite adv_SS by exact Hc.
  specialize (Hal y l1 W1). destruct (p_args_loop cfg f (SS y l1)) as [argsg s1| | |]; cbn [pbind OutA] in *; try exact I.
  destruct Hal as (ts & rp & r' & E1 & Trp & Wrp & -> & HA).
  destruct (find_assoc (tval c) rg) as [d|] eqn:Ef; [|exact I].
  destruct (length (map fst argsg) =? length (f_args d))%nat eqn:El; cbn [negb]; [|exact I]. apply Nat.eqb_eq in El.
  destruct (check_args cfg (f_args d) (map fst argsg)) eqn:Eck; [|exact I]. destruct (grouped_ok (f_args d) (map snd argsg)) eqn:Ego; [|exact I]. cbn [OutP].
  assert (Hrp : ty rp <> T_EOF) by congruence. nxt Wrp as z l2 W2.
  exists (c :: ts ++ [rp]), z, l2. split; [cbn [app]; rewrite E1, <- app_assoc; reflexivity|]. split; [exact W2|]. split; [apply sh_SS; exact Hrp|].
  right. left. right. right. exists (tval c), d, (map fst argsg), ts, (tidx c), (tval rp), (tidx rp). split; [reflexivity|]. split; [exact Ef|]. split; [apply args_convert; assumption|].
  rewrite (tk_eta c) at 1. rewrite (tk_eta rp) at 1. rewrite Tc, Trp. reflexivity.
Qed.

Lemma args_sound f : H_pr f -> H_fl f -> H_al f -> H_al (S f).
Proof.
  intros Hpr Hfl Hal c r W. rewrite p_args_loop_S. rewrite !is_ty_SS.
  destruct (ttype_eqb (ty c) T_RPAREN) eqn:Erp.
  { apply teq_true in Erp. cbn [OutA]. exists [], c, r. repeat split; auto. apply ac_nil. }
  apply teq_false in Erp. destruct (negb (in_function_argument_map (cty (SS c r)))); [exact I|]. cbv zeta.
  specialize (Hpr c r W). destruct (p_primary cfg f (SS c r)) as [[e1 i1] s1| | |]; cbn [pbind OutP] in *; try exact I.
  destruct Hpr as (ts1 & n & r1 & E1 & Wn & HS1 & Hc1). rewrite (sh_peek_ty _ _ _ HS1). rewrite ainfix_eq.
  assert (H17 : 1 <= 7) by lia. specialize (Hfl 1 (e1, i1) s1 ts1 n r1 H17 Wn HS1 (cls_weaken 7 1 _ _ _ ltac:(lia) Hc1)).
  destruct (p_fexpr_loop cfg f 1 (e1, i1) s1) as [[e2 i2] s2| | |]; cbn [pbind OutL fst] in *; try exact I.
  destruct Hfl as (ts2 & n2 & r2 & E2 & W2 & HS2 & Hst2 & Hc2 & Hnc). rewrite (sh_peek_ty _ _ _ HS2).
  assert (EIn : c :: r = ts2 ++ n2 :: r2) by (rewrite E1; exact E2).
  set (g := ttype_eqb (ty c) T_LPAREN && match binary_operator (ty n) with Some _ => false | None => true end).
  assert (HACls : ACls e2 g ts2).
  { destruct Hc2 as [HL | [HT | (k & HE & Hk & _ & _ & Hcl)]]; [left; exact HL | right; left; exact HT|]. right. right. exists k. split; [exact HE|]. split; [exact Hk|].
    intros Hcomp. destruct (Hnc Hcomp) as (_ & -> & En). inversion En; subst n2 r2. destruct (Hcl Hcomp) as [_ (lp & tl & Ets & Hlp)].
    unfold g. rewrite (stops1_nobinop _ Hst2). rewrite andb_true_r. rewrite Ets in EIn. inversion EIn; subst. rewrite Hlp. reflexivity. }
  destruct (ttype_eqb (ty n2) T_RPAREN) eqn:En2; cbn [negb].
  - (* last argument *) apply teq_true in En2. cbn [pbind]. destruct (sh_after_peek _ _ _ HS2) as [c0 ->]. rewrite adv_SP.
    destruct f as [|f']; [exact I|]. rewrite p_args_loop_S. rewrite is_ty_SS, En2. cbn [ttype_eqb ttype_code Z.eqb Pos.eqb pbind OutA fst].
    exists ts2, n2, r2. split; [exact EIn|]. split; [exact En2|]. split; [exact W2|]. split; [reflexivity|]. apply ac_one. exact HACls.
  - destruct (ttype_eqb (ty n2) T_COMMA) eqn:Ecm; cbn [negb]; [|exact I]. apply teq_true in Ecm.
    destruct (sh_after_peek _ _ _ HS2) as [c0 ->]. rewrite after_peek_SP, adv_SP. assert (Hn2 : ty n2 <> T_EOF) by congruence. nxt W2 as y l3 W3.
    rewrite peek_ty_SS by exact Hn2. destruct (ttype_eqb (ty y) T_RPAREN) eqn:Ey; [exact I|]. apply teq_false in Ey. cbn [pbind]. rewrite after_peek_SS by exact Hn2. rewrite adv_SP.
    specialize (Hal y l3 W3). destruct (p_args_loop cfg f (SS y l3)) as [es s3| | |]; cbn [pbind OutA fst] in *; try exact I.
    destruct Hal as (ts3 & rp & r3 & E3 & Trp & Wrp & -> & HA3).
    exists (ts2 ++ n2 :: ts3), rp, r3. split; [rewrite EIn, E3, <- app_assoc; reflexivity|]. split; [exact Trp|]. split; [exact Wrp|]. split; [reflexivity|].
    rewrite (tk_eta n2), Ecm. apply ac_cons; [exact HACls | exact HA3|].
    intros ->. inversion HA3; subst. cbn [app] in E3. inversion E3; subst. contradiction.
Qed.

(* ================= all fourteen functions ============================================================================================ *)
Definition SND (f : nat) : Prop :=
  H_query f /\ H_sel f /\ H_br f /\ H_fs f /\ H_fe f /\ H_fl f /\ H_pr f /\ H_in f /\ H_gr f /\ H_gl f /\ H_pf f /\ H_fn f /\ H_al f.

Theorem SND_all : forall f, SND f.
Proof.
  induction f as [|f (Hq & Hs & Hb & Hfs & Hfe & Hfl & Hpr & Hin & Hgr & Hgl & Hpf & Hfn & Hal)].
  - unfold SND, H_query, H_sel, H_br, H_fs, H_fe, H_fl, H_pr, H_in, H_gr, H_gl, H_pf, H_fn, H_al. repeat split; intros; try exact I; discriminate.
  - split; [apply query_sound; assumption|]. split; [apply sel_sound; assumption|]. split; [apply br_sound; assumption|]. split; [apply fs_sound; assumption|].
    split; [apply fexpr_sound; assumption|]. split; [apply floop_sound; assumption|]. split; [apply primary_sound; assumption|]. split; [apply infix_sound; assumption|].
    split; [apply grouped_sound; assumption|]. split; [apply gl_sound; assumption|]. split; [apply prefix_sound; assumption|]. split; [apply function_sound; assumption|].
    apply args_sound; assumption.
Qed.

(* Parser.parse: if it returns a query for ROOT, t, EOF then t derives that query *)
Theorem parse_sound root t e q s : ty root = T_ROOT -> wf (t ++ [e]) -> p_parse cfg (root :: t ++ [e]) = POk q s -> QT cfg q t.
Proof.
  intros Hroot W H. unfold p_parse in H. cbv zeta in H. cbn [stream_init] in H.
  change {| cur := root; pushed := []; rest := t ++ [e] |} with (SS root (t ++ [e])) in H. rewrite is_ty_SS, Hroot in H. cbn [ttype_eqb ttype_code Z.eqb Pos.eqb negb] in H.
  destruct (t ++ [e]) as [|y l1] eqn:Et; [destruct t; discriminate|]. rewrite adv_SS in H by congruence.
  destruct (SND_all (parse_fuel (root :: y :: l1))) as (Hq & _). specialize (Hq false y l1 W).
  destruct (p_query cfg (parse_fuel (root :: y :: l1)) false (SS y l1)) as [q0 s0| | |]; cbn [pbind OutQ] in *; try discriminate.
  destruct Hq as (ts & n & r' & E1 & Wn & Hn & HQ & ->). rewrite is_ty_SS in H. destruct (ttype_eqb (ty n) T_EOF) eqn:En; cbn [negb] in H; [|unfold err_cur in H; discriminate].
  inversion H; subst q0. apply teq_true in En.
  (* n is the final EOF: nothing follows it *)
  assert (r' = []). { destruct r' as [|z l2]; [reflexivity|]. destruct (wf_cons n z l2 Wn) as [Hne _]. contradiction. }
  subst r'. rewrite <- Et in E1. apply app_inj_tail in E1 as [-> _]. exact HQ.
Qed.
End PS.
