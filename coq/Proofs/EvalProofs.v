(* C01: the evaluator model equals the RFC nodelist semantics on filter-free queries. *)
From JP Require Import Base.Json Model.Ast Model.Slice Model.Eval Spec.Slice Spec.Sem Proofs.SliceProofs.

Definition ff_sel (s : sel) : bool := match s with SFilter _ => false | _ => true end.
Definition ff_seg (sg : seg) : bool := match sg with Child ss | Desc ss => forallb ff_sel ss end.
Definition filter_free (q : query) : bool := forallb ff_seg q.

Definition isc (n : node) : bool := is_container (snd n).

(* --- nesting of members ------------------------------------------------ *)
Lemma nesting_arr_in l x : In x l -> (nesting x < nesting (JArr l))%nat.
Proof.
  cbn [nesting]. induction l as [|y l IH]; cbn [In fold_right]; [tauto|].
  intros [->|H]; [lia|]. specialize (IH H). lia.
Qed.
Lemma nesting_obj_in m k x : In (k, x) m -> (nesting x < nesting (JObj m))%nat.
Proof.
  cbn [nesting]. induction m as [|[k' y] m IH]; cbn [In fold_right snd]; [tauto|].
  intros [E|H]; [inversion E; subst; lia|]. specialize (IH H). lia.
Qed.

(* --- m_visit = container descendants in pre-order ----------------------- *)
Lemma visit_spec limit : forall v d loc,
  (d <= limit)%nat -> (nesting v + d <= S limit)%nat ->
  m_visit limit d loc v = Ok ((loc, v) :: filter isc (tl (descendants loc v))).
Proof.
  induction v as [| b | n | s | l IH | m IH] using json_ind'; intros d loc Hd Hn;
    cbn [m_visit descendants tl]; assert (E : (limit <? d)%nat = false) by (apply Nat.ltb_ge; lia);
    rewrite E; try reflexivity.
  - (* array *)
    match goal with |- bind (?g 0 l) _ = Ok (_ :: filter _ (?g' 0 l)) =>
      assert (Hrest : forall i, g i l = Ok (filter isc (g' i l))) end.
    { assert (Hx : forall x, In x l -> (nesting x < nesting (JArr l))%nat) by (apply nesting_arr_in).
      revert Hx Hn. generalize (JArr l) as whole. intros whole Hx Hn.
      induction IH as [|x l Px _ IHl]; intros i; [reflexivity|].
      assert (Hxx : (nesting x < nesting whole)%nat) by (apply Hx; left; reflexivity).
      assert (Hx' : forall y, In y l -> (nesting y < nesting whole)%nat) by (intros y Hy; apply Hx; right; exact Hy).
      rewrite filter_app. rewrite (IHl Hx' (i + 1)).
      destruct (is_container x) eqn:Ec.
      - assert (1 <= nesting x)%nat by (destruct x; try discriminate; cbn [nesting]; lia).
        rewrite Px by lia. cbn [bind].
        match goal with |- Ok ((?n :: filter isc ?T) ++ _) = _ =>
          replace (n :: filter isc T) with (filter isc (descendants (fst n) (snd n))); [reflexivity|] end.
        cbn [fst snd]. destruct x; try discriminate; reflexivity.
      - destruct x; try discriminate; reflexivity. }
    rewrite Hrest. reflexivity.
  - (* object *)
    match goal with |- bind (?g m) _ = Ok (_ :: filter _ (?g' m)) =>
      assert (Hrest : g m = Ok (filter isc (g' m))) end.
    { assert (Hx : forall k x, In (k, x) m -> (nesting x < nesting (JObj m))%nat) by (apply nesting_obj_in).
      revert Hx Hn. generalize (JObj m) as whole. intros whole Hx Hn.
      induction IH as [|[k x] m Px _ IHm]; [reflexivity|]. cbn [snd] in Px.
      assert (Hxx : (nesting x < nesting whole)%nat) by (apply (Hx k); left; reflexivity).
      assert (Hx' : forall k' y, In (k', y) m -> (nesting y < nesting whole)%nat) by (intros k' y Hy; apply (Hx k'); right; exact Hy).
      rewrite filter_app. rewrite (IHm Hx').
      destruct (is_container x) eqn:Ec.
      - assert (1 <= nesting x)%nat by (destruct x; try discriminate; cbn [nesting]; lia).
        rewrite Px by lia. cbn [bind].
        match goal with |- Ok ((?n :: filter isc ?T) ++ _) = _ =>
          replace (n :: filter isc T) with (filter isc (descendants (fst n) (snd n))); [reflexivity|] end.
        cbn [fst snd]. destruct x; try discriminate; reflexivity.
      - destruct x; try discriminate; reflexivity. }
    rewrite Hrest. reflexivity.
Qed.

(* --- generic monadic helpers -------------------------------------------- *)
Lemma flat_mapM_ok {A B} (f : A -> result (list B)) (g : A -> list B) l :
  (forall x, In x l -> f x = Ok (g x)) -> flat_mapM f l = Ok (flat_map g l).
Proof.
  induction l as [|x l IH]; intros H; cbn [flat_mapM flat_map]; [reflexivity|].
  rewrite (H x) by (left; reflexivity). cbn [bind]. rewrite IH by (intros y Hy; apply H; right; exact Hy).
  reflexivity.
Qed.

Lemma flat_map_filter_nil {A B} (p : A -> bool) (g : A -> list B) l :
  (forall x, p x = false -> g x = []) -> flat_map g (filter p l) = flat_map g l.
Proof.
  intros H. induction l as [|x l IH]; cbn [filter flat_map]; [reflexivity|].
  destruct (p x) eqn:E; cbn [flat_map]; rewrite IH; [reflexivity|]. rewrite (H x E). reflexivity.
Qed.

(* --- selectors ----------------------------------------------------------- *)
Lemma map_select_at n l idxs :
  map (fun p => mk_child n (KIdx (fst p)) (snd p)) (select_at l idxs) = select_idx n l idxs.
Proof.
  unfold select_at, select_idx. induction idxs as [|i idxs IH]; cbn [flat_map map]; [reflexivity|].
  rewrite map_app, IH. destruct (znth l i); reflexivity.
Qed.

Section WithCfg.
  Variable cfg : envcfg.
  Notation rg := (reg cfg).
  Notation rxf := (rx cfg).

  Lemma m_sel_ff root s n : ff_sel s = true -> m_sel cfg root s n = Ok (s_sel rg rxf root s n).
  Proof.
    destruct s as [k | i | a b c | | e]; intros H; try discriminate; cbn [m_sel s_sel].
    - destruct (snd n); try reflexivity. destruct (find_assoc k m); reflexivity.
    - destruct (snd n); try reflexivity. rewrite index_model_is_rfc, map_select_at. reflexivity.
    - destruct (snd n); try reflexivity.
      destruct (slice_model_is_rfc l a b c) as [-> _]. rewrite map_select_at. reflexivity.
    - reflexivity.
  Qed.

  Lemma s_sel_scalar root s n : ff_sel s = true -> isc n = false -> s_sel rg rxf root s n = [].
  Proof.
    unfold isc. destruct s; intros H Hc; try discriminate; cbn [s_sel]; destruct n as [loc v]; cbn [snd] in *;
      destruct v; try discriminate; reflexivity.
  Qed.

  Definition sels_sem root (ss : list sel) (n : node) : list node :=
    (fix go (ss : list sel) : list node :=
       match ss with [] => [] | s :: ss' => s_sel rg rxf root s n ++ go ss' end) ss.

  Lemma m_sels_ff root ss n : forallb ff_sel ss = true ->
    (fix go (ss : list sel) : result (list node) :=
       match ss with
       | [] => Ok []
       | s :: ss' => do a <- m_sel cfg root s n; do b <- go ss'; Ok (a ++ b)
       end) ss = Ok (sels_sem root ss n).
  Proof.
    induction ss as [|s ss IH]; intros H; [reflexivity|].
    cbn [forallb] in H. apply andb_true_iff in H as [H1 H2].
    rewrite m_sel_ff by exact H1. cbn [bind]. rewrite IH by exact H2. reflexivity.
  Qed.

  Lemma sels_sem_scalar root ss n : forallb ff_sel ss = true -> isc n = false -> sels_sem root ss n = [].
  Proof.
    intros H Hc. unfold sels_sem. induction ss as [|s ss IH]; [reflexivity|].
    cbn [forallb] in H. apply andb_true_iff in H as [H1 H2].
    rewrite s_sel_scalar by assumption. rewrite IH by exact H2. reflexivity.
  Qed.

  (* --- nesting never grows along selection -------------------------------- *)
  Lemma find_assoc_in {A} k (m : list (str * A)) v : find_assoc k m = Some v -> exists k', In (k', v) m.
  Proof.
    induction m as [|[k' x] m IH]; cbn [find_assoc]; [discriminate|].
    destruct (str_eqb k k'); intros H; [inversion H; subst; exists k'; left; reflexivity|].
    destruct (IH H) as [k'' Hk]. exists k''. right. exact Hk.
  Qed.
  Lemma znth_aux_in {A} (l : list A) : forall i x, znth_aux l i = Some x -> In x l.
  Proof.
    induction l as [|y l IH]; intros i x; cbn [znth_aux]; [discriminate|].
    destruct (i =? 0); intros H; [inversion H; left; reflexivity | right; eapply IH; exact H].
  Qed.
  Lemma znth_in {A} (l : list A) i x : znth l i = Some x -> In x l.
  Proof. unfold znth. destruct (i <? 0); [discriminate|]. apply znth_aux_in. Qed.

  Lemma select_idx_nesting n l idxs c : snd n = JArr l -> In c (select_idx n l idxs) ->
    (nesting (snd c) < nesting (snd n))%nat.
  Proof.
    intros En. unfold select_idx. rewrite in_flat_map. intros [i [_ Hi]].
    destruct (znth l i) as [x|] eqn:Ez; [|destruct Hi].
    destruct Hi as [<-|[]]. cbn [child_at snd]. rewrite En. apply nesting_arr_in. eapply znth_in; exact Ez.
  Qed.

  Lemma enum_from_in {A} (l : list A) : forall i p, In p (enum_from i l) -> In (snd p) l.
  Proof.
    induction l as [|x l IH]; intros i p; cbn [enum_from In]; [tauto|].
    intros [<-|H]; [left; reflexivity | right; eapply IH; exact H].
  Qed.

  Lemma children_nesting n c : In c (children n) -> (nesting (snd c) < nesting (snd n))%nat.
  Proof.
    unfold children. destruct (snd n) as [| | | | l | m]; cbn [In]; try tauto; rewrite in_map_iff.
    - intros [p [<- Hp]]. cbn [snd]. apply nesting_arr_in. eapply enum_from_in; exact Hp.
    - intros [[k x] [<- Hp]]. cbn [snd fst]. eapply nesting_obj_in; exact Hp.
  Qed.

  Lemma s_sel_nesting root s n c : ff_sel s = true -> In c (s_sel rg rxf root s n) ->
    (nesting (snd c) < nesting (snd n))%nat.
  Proof.
    destruct s as [k | i | a b c' | | e]; intros H; try discriminate; cbn [s_sel].
    - destruct (snd n) as [| | | | l | m] eqn:En; cbn [In]; try tauto.
      destruct (find_assoc k m) as [v|] eqn:Ef; cbn [In]; [|tauto].
      intros [<-|[]]. cbn [child_at snd]. destruct (find_assoc_in _ _ _ Ef) as [k' Hk]. eapply nesting_obj_in; exact Hk.
    - destruct (snd n) as [| | | | l | m] eqn:En; cbn [In]; try tauto.
      intros Hc. rewrite <- En. eapply select_idx_nesting; [exact En | exact Hc].
    - destruct (snd n) as [| | | | l | m] eqn:En; cbn [In]; try tauto.
      intros Hc. rewrite <- En. eapply select_idx_nesting; [exact En | exact Hc].
    - apply children_nesting.
  Qed.

  Lemma sels_sem_nesting root ss n c : forallb ff_sel ss = true -> In c (sels_sem root ss n) ->
    (nesting (snd c) < nesting (snd n))%nat.
  Proof.
    unfold sels_sem. induction ss as [|s ss IH]; intros H; cbn [In]; [tauto|].
    cbn [forallb] in H. apply andb_true_iff in H as [H1 H2]. rewrite in_app_iff.
    intros [Hc|Hc]; [eapply s_sel_nesting; eassumption | apply IH; assumption].
  Qed.

  Lemma descendants_nesting : forall v loc d, In d (descendants loc v) -> (nesting (snd d) <= nesting v)%nat.
  Proof.
    induction v as [| b | n | s | l IH | m IH] using json_ind'; intros loc d; cbn [descendants In];
      try (intros [<-|[]]; cbn [snd]; lia).
    - intros [<-|H]; [cbn [snd]; lia|].
      assert (Hx : forall x, In x l -> (nesting x < nesting (JArr l))%nat) by (apply nesting_arr_in).
      revert Hx H. generalize (JArr l) as whole. intros whole Hx. generalize 0 as i.
      induction IH as [|x l Px _ IHl]; intros i; cbn [In]; [tauto|]. rewrite in_app_iff.
      intros [H|H].
      + specialize (Px _ _ H). specialize (Hx x (or_introl eq_refl)). lia.
      + eapply IHl; [|exact H]. intros y Hy. apply Hx. right. exact Hy.
    - intros [<-|H]; [cbn [snd]; lia|].
      assert (Hx : forall k x, In (k, x) m -> (nesting x < nesting (JObj m))%nat) by (apply nesting_obj_in).
      revert Hx H. generalize (JObj m) as whole. intros whole Hx.
      induction IH as [|[k x] m Px _ IHm]; cbn [In]; [tauto|]. rewrite in_app_iff. cbn [snd] in Px.
      intros [H|H].
      + specialize (Px _ _ H). specialize (Hx k x (or_introl eq_refl)). lia.
      + eapply IHm; [|exact H]. intros k' y Hy. apply (Hx k'). right. exact Hy.
  Qed.

  (* --- segments ------------------------------------------------------------ *)
  Definition bounded (N : nat) (ns : list node) : Prop := Forall (fun n => (nesting (snd n) <= N)%nat) ns.

  Lemma m_seg_ff root sg ns : ff_seg sg = true -> (1 <= max_depth cfg)%nat -> bounded (max_depth cfg) ns ->
    m_seg cfg root sg ns = Ok (s_seg rg rxf root sg ns) /\ bounded (max_depth cfg) (s_seg rg rxf root sg ns).
  Proof.
    intros Hff H1 Hb. destruct sg as [ss|ss]; cbn [ff_seg] in Hff; cbn [m_seg s_seg].
    - split.
      + apply flat_mapM_ok. intros n _. apply m_sels_ff. exact Hff.
      + unfold bounded in *. rewrite Forall_forall in *. intros c Hc. apply in_flat_map in Hc as [n [Hn Hc]].
        specialize (Hb n Hn). pose proof (sels_sem_nesting root ss n c Hff Hc). lia.
    - split.
      + apply flat_mapM_ok. intros n Hn. unfold bounded in Hb. rewrite Forall_forall in Hb. specialize (Hb n Hn).
        rewrite visit_spec by lia. cbn [bind].
        rewrite (flat_mapM_ok _ (sels_sem root ss)) by (intros v _; apply m_sels_ff; exact Hff).
        f_equal. destruct n as [loc v]. cbn [fst snd].
        replace (descendants loc v) with ((loc, v) :: tl (descendants loc v)) at 2 by (destruct v; reflexivity).
        cbn [flat_map]. f_equal. apply flat_map_filter_nil. intros x Hx. apply sels_sem_scalar; assumption.
      + unfold bounded in *. rewrite Forall_forall in *. intros c Hc. apply in_flat_map in Hc as [n [Hn Hc]].
        apply in_flat_map in Hc as [d [Hd Hc]]. specialize (Hb n Hn).
        pose proof (descendants_nesting _ _ _ Hd). pose proof (sels_sem_nesting root ss d c Hff Hc). lia.
  Qed.

  Lemma m_segs_ff root q : forall ns, filter_free q = true -> (1 <= max_depth cfg)%nat -> bounded (max_depth cfg) ns ->
    m_segs cfg root q ns = Ok (s_segs rg rxf root q ns).
  Proof.
    unfold m_segs, s_segs. induction q as [|sg q IH]; intros ns Hff H1 Hb; cbn [run_segs run_segs_s]; [reflexivity|].
    cbn [filter_free forallb] in Hff. apply andb_true_iff in Hff as [Ha Hq].
    destruct (m_seg_ff root sg ns Ha H1 Hb) as [-> Hb']. cbn [bind]. apply IH; assumption.
  Qed.

  Theorem find_filter_free q v : filter_free q = true -> (1 <= max_depth cfg)%nat -> (nesting v <= max_depth cfg)%nat ->
    m_find cfg q v = Ok (sem rg rxf q v).
  Proof.
    intros Hff H1 Hn. unfold m_find, sem. apply m_segs_ff; try assumption. constructor; [exact Hn | constructor].
  Qed.
End WithCfg.
