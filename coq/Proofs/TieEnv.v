(* regenerated environment constants = the model's (Gen/Env.v) *)
From JP Require Import Base.Json Model.Ast Gen.Env.
Theorem env_constants_regenerated :
  g_builtin_registry = builtin_registry /\ g_max_int_index = 2 ^ 53 - 1 /\ g_min_int_index = - (2 ^ 53) + 1 /\
  g_nondeterministic = false.
Proof. repeat split; reflexivity. Qed.
