(* regenerated environment constants = the model's (Gen/Env.v) *)
From JP Require Import Base.Json Model.Ast Gen.Env.
Theorem env_constants_regenerated :
  g_builtin_registry = builtin_registry /\ g_max_int_index = 2 ^ 53 - 1 /\ g_min_int_index = - (2 ^ 53) + 1 /\
  g_nondeterministic = false /\ g_match_flags = 0%nat /\ g_search_flags = 0%nat /\
  g_match_entry = [102; 117; 108; 108; 109; 97; 116; 99; 104]%N /\ g_search_entry = [115; 101; 97; 114; 99; 104]%N.
Proof. repeat split; reflexivity. Qed.

