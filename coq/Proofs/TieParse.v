(* regenerated parser tables = the model's (Gen/ParseConst.v) *)
From JP Require Import Base.Json Model.Tokens Model.Parse Model.Ast Gen.ParseConst.
Definition all_ttypes : list ttype :=
  [T_EOF; T_ERROR; T_INIT; T_COLON; T_COMMA; T_DOUBLE_DOT; T_FILTER; T_INDEX; T_LBRACKET; T_PROPERTY; T_RBRACKET; T_ROOT; T_WILD;
   T_AND; T_CURRENT; T_DQ_STRING; T_EQ; T_FALSE; T_FLOAT; T_FUNCTION; T_GE; T_GT; T_INT; T_LE; T_LPAREN; T_LT; T_NE; T_NOT; T_NULL;
   T_OR; T_RPAREN; T_SQ_STRING; T_TRUE].
Lemma all_ttypes_complete t : In t all_ttypes.
Proof. destruct t; cbn; tauto. Qed.

Fixpoint lookup_tt {A} (t : ttype) (l : list (ttype * A)) : option A :=
  match l with [] => None | (t', a) :: r => if ttype_eqb t t' then Some a else lookup_tt t r end.
Definition op_text (b : binop) : list N :=
  match b with
  | BAnd => [38; 38] | BOr => [124; 124]
  | BCmp OEq => [61; 61] | BCmp ONe => [33; 61] | BCmp OLt => [60] | BCmp OLe => [60; 61] | BCmp OGt => [62] | BCmp OGe => [62; 61]
  end%N.

Definition parse_tables_ok : bool :=
  forallb (fun t =>
    (precedence_of t =? match lookup_tt t g_PRECEDENCES with Some p => p | None => g_PRECEDENCE_LOWEST end)
    && match binary_operator t, lookup_tt t g_BINARY_OPERATORS with
       | Some b, Some s => str_eqb (op_text b) s
                           && Bool.eqb (match b with BCmp _ => true | _ => false end) (existsb (str_eqb s) g_COMPARISON_OPERATORS)
       | None, None => true
       | _, _ => false
       end
    && Bool.eqb (in_token_map t) (match lookup_tt t g_token_map with Some _ => true | None => false end)
    && Bool.eqb (in_function_argument_map t) (match lookup_tt t g_function_argument_map with Some _ => true | None => false end))
    all_ttypes
  && (PRECEDENCE_LOWEST =? g_PRECEDENCE_LOWEST) && (PRECEDENCE_PREFIX =? g_PRECEDENCE_PREFIX)
  && (g_fe_PRECEDENCE_LOGICAL_AND =? g_PRECEDENCE_LOGICAL_AND) && (g_fe_PRECEDENCE_LOGICAL_OR =? g_PRECEDENCE_LOGICAL_OR)
  && (g_fe_PRECEDENCE_PREFIX =? g_PRECEDENCE_PREFIX) && (g_fe_PRECEDENCE_LOWEST =? g_PRECEDENCE_LOWEST).
Theorem parse_tables_regenerated : parse_tables_ok = true.
Proof. vm_compute. reflexivity. Qed.

