(* C08 / C12: canonical_string prints the RFC normalized form; locations address their values. *)
From JP Require Import Base.Json Model.Ast Model.Serialize Spec.NormPath Spec.Sem Proofs.AstInd Proofs.EvalProofs.
From Coq Require Import ZifyBool.

(* --- canonical_string -------------------------------------------------------------------------- *)
(* json.dumps never emits a raw double quote *)
Lemma dumps_char_hd_not_dq c : match dumps_char c with d :: _ => d <> 34%N | [] => False end.
Proof.
  unfold dumps_char.
  repeat match goal with |- context [if ?b then _ else _] => destruct b eqn:? end; try discriminate.
  intros ->. rewrite N.eqb_refl in *. discriminate.
Qed.
Lemma dumps_body_hd_not_dq s : match dumps_body s with d :: _ => d <> 34%N | [] => True end.
Proof.
  destruct s as [|c s]; [exact I|]. unfold dumps_body. cbn [flat_map].
  pose proof (dumps_char_hd_not_dq c) as H. destruct (dumps_char c) as [|d r]; [destruct H|]. exact H.
Qed.

(* what canonical_string makes of one character, before the final quote-escaping pass *)
Definition esc1 (c : N) : str := if N.eqb c 34 then [34%N] else dumps_char c.

Lemma replace_bq_cons_plain c r : c <> 92%N -> replace_bq (c :: r) = c :: replace_bq r.
Proof.
  intros H. cbn [replace_bq]. destruct r as [|d r']; [reflexivity|].
  assert (E : N.eqb c 92 = false) by (apply N.eqb_neq; exact H). rewrite E. reflexivity.
Qed.
Lemma replace_bq_bs_plain d r : d <> 34%N -> replace_bq (92%N :: d :: r) = 92%N :: replace_bq (d :: r).
Proof.
  intros H. cbn [replace_bq]. assert (E : N.eqb d 34 = false) by (apply N.eqb_neq; exact H).
  rewrite E. reflexivity.
Qed.

Lemma replace_bq_dumps : forall s, replace_bq (dumps_body s) = flat_map esc1 s.
Proof.
  induction s as [|c s IH]; [reflexivity|].
  unfold dumps_body in *. cbn [flat_map]. rewrite <- IH.
  pose proof (dumps_body_hd_not_dq s) as Hhd. unfold dumps_body in Hhd.
  set (rest := flat_map dumps_char s) in *.
  unfold esc1, dumps_char.
  destruct (N.eqb c 92) eqn:E92.
  { (* \\ followed by something that is not a quote *)
    assert (E34 : N.eqb c 34 = false) by (apply N.eqb_eq in E92; subst; reflexivity). rewrite E34.
    cbn [app]. destruct rest as [|d r].
    - reflexivity.
    - rewrite replace_bq_bs_plain by discriminate. cbn [replace_bq].
      assert (Ed : N.eqb d 34 = false) by (apply N.eqb_neq; exact Hhd). rewrite Ed. cbn [andb]. reflexivity. }
  destruct (N.eqb c 34) eqn:E34.
  { cbn [app replace_bq]. destruct rest; reflexivity. }
  (* every remaining case: the escape does not end in a backslash and contains no backslash-quote pair *)
  repeat match goal with |- context [if ?b then _ else _] => destruct b eqn:? end;
    cbn [app];
    repeat first [ rewrite replace_bq_bs_plain by discriminate | rewrite replace_bq_cons_plain by discriminate ];
    try reflexivity.
  - (* \u00xx: hex digits are never quotes or backslashes *)
    assert (Hh : forall d, 0 <= d < 16 -> hex_digit_lower d <> 92%N /\ hex_digit_lower d <> 34%N).
    { intros d Hd. unfold hex_digit_lower. destruct (d <? 10) eqn:Ed; split; intros Hx; lia. }
    assert (Hc : 0 <= Z.of_N c < 32) by lia.
    destruct (Hh (Z.of_N c / 16)) as [A1 A2]; [split; [apply Z.div_pos; lia | apply Z.div_lt_upper_bound; lia]|].
    destruct (Hh (Z.of_N c mod 16)) as [B1 B2]; [apply Z.mod_pos_bound; lia|].
    rewrite (replace_bq_cons_plain (hex_digit_lower (Z.of_N c / 16))) by exact A1.
    rewrite (replace_bq_cons_plain (hex_digit_lower (Z.of_N c mod 16))) by exact B1. reflexivity.
  - (* plain character *)
    apply replace_bq_cons_plain. intros ->. discriminate.
Qed.

Lemma replace_sq_app a b : replace_sq (a ++ b) = replace_sq a ++ replace_sq b.
Proof. unfold replace_sq. apply flat_map_app. Qed.

Lemma hexl_eq d : hex_digit_lower d = hexl d. Proof. reflexivity. Qed.

Lemma replace_sq_esc1 c : replace_sq (esc1 c) = norm_char c.
Proof.
  unfold esc1, dumps_char, norm_char, replace_sq.
  destruct (N.eqb c 34) eqn:E34.
  { apply N.eqb_eq in E34. subst. reflexivity. }
  destruct (N.eqb c 92) eqn:E92.
  { apply N.eqb_eq in E92. subst. reflexivity. }
  destruct (N.eqb c 8) eqn:E8; [apply N.eqb_eq in E8; subst; reflexivity|].
  destruct (N.eqb c 12) eqn:E12; [apply N.eqb_eq in E12; subst; reflexivity|].
  destruct (N.eqb c 10) eqn:E10; [apply N.eqb_eq in E10; subst; reflexivity|].
  destruct (N.eqb c 13) eqn:E13; [apply N.eqb_eq in E13; subst; reflexivity|].
  destruct (N.eqb c 9) eqn:E9; [apply N.eqb_eq in E9; subst; reflexivity|].
  destruct (N.eqb c 39) eqn:E39.
  { apply N.eqb_eq in E39. subst. reflexivity. }
  destruct (c <? 32)%N eqn:Elt.
  - cbn [flat_map app].
    assert (Hh : forall d, 0 <= d < 16 -> N.eqb (hex_digit_lower d) 39 = false).
    { intros d Hd. apply N.eqb_neq. unfold hex_digit_lower. destruct (d <? 10) eqn:Ed; intros Hx; lia. }
    assert (Hc : 0 <= Z.of_N c < 32) by lia.
    rewrite (Hh (Z.of_N c / 16)) by (split; [apply Z.div_pos; lia | apply Z.div_lt_upper_bound; lia]).
    rewrite (Hh (Z.of_N c mod 16)) by (apply Z.mod_pos_bound; lia). reflexivity.
  - cbn [flat_map]. rewrite E39. reflexivity.
Qed.

Theorem canonical_string_is_norm_name : forall s, m_canonical_string s = norm_name s.
Proof.
  intros s. unfold m_canonical_string, norm_name. f_equal. f_equal.
  rewrite replace_bq_dumps. induction s as [|c s IH]; [reflexivity|].
  cbn [flat_map]. rewrite replace_sq_app, replace_sq_esc1, IH. reflexivity.
Qed.

Theorem path_is_norm_path : forall loc, Forall (fun k => match k with KIdx i => 0 <= i | _ => True end) loc ->
  m_path loc = norm_path loc.
Proof.
  intros loc H. unfold m_path, norm_path. f_equal. induction H as [|k loc Hk _ IH]; [reflexivity|].
  cbn [flat_map]. rewrite IH. f_equal. destruct k as [s|i]; cbn [key_str norm_seg].
  - rewrite canonical_string_is_norm_name. reflexivity.
  - unfold repr_int. assert (E : (i <? 0) = false) by lia. rewrite E. reflexivity.
Qed.
