(* JSON values as Python sees them after json.load: dict keeps insertion order,
   bool is distinguished from int, int is unbounded, float is binary64. *)
From JP Require Export Base.Prelude.

(* A finite float is m * 2^e exactly (canonical: m odd, or m = 0 /\ e = 0);
   -0.0 and the infinities are separate.  NaN is not JSON and is excluded. *)
Inductive num :=
| NInt (z : Z)
| NFlt (m e : Z)
| NNegZero
| NInf (neg : bool).

Inductive json :=
| JNull
| JBool (b : bool)
| JNum (n : num)
| JStr (s : str)
| JArr (l : list json)
| JObj (m : list (str * json)).

Section JsonInd.
  Variable P : json -> Prop.
  Hypothesis Hnull : P JNull.
  Hypothesis Hbool : forall b, P (JBool b).
  Hypothesis Hnum : forall n, P (JNum n).
  Hypothesis Hstr : forall s, P (JStr s).
  Hypothesis Harr : forall l, Forall P l -> P (JArr l).
  Hypothesis Hobj : forall m, Forall (fun kv => P (snd kv)) m -> P (JObj m).
  Fixpoint json_ind' (v : json) : P v :=
    match v with
    | JNull => Hnull
    | JBool b => Hbool b
    | JNum n => Hnum n
    | JStr s => Hstr s
    | JArr l => Harr l ((fix go (l : list json) : Forall P l :=
                          match l with [] => Forall_nil _ | x :: xs => Forall_cons _ (json_ind' x) (go xs) end) l)
    | JObj m => Hobj m ((fix go (m : list (str * json)) : Forall (fun kv => P (snd kv)) m :=
                          match m with [] => Forall_nil _ | kv :: xs => Forall_cons kv (json_ind' (snd kv)) (go xs) end) m)
    end.
End JsonInd.

(* exact numeric value as (mantissa, binary exponent) or infinity *)
Inductive xval := XFin (m e : Z) | XInf (neg : bool).
Definition num_xval (n : num) : xval :=
  match n with
  | NInt z => XFin z 0
  | NFlt m e => XFin m e
  | NNegZero => XFin 0 0
  | NInf s => XInf s
  end.

Definition fin_compare (m1 e1 m2 e2 : Z) : comparison :=
  if e1 <=? e2 then Z.compare m1 (m2 * 2 ^ (e2 - e1))
  else Z.compare (m1 * 2 ^ (e1 - e2)) m2.

Definition xval_compare (a b : xval) : comparison :=
  match a, b with
  | XFin m1 e1, XFin m2 e2 => fin_compare m1 e1 m2 e2
  | XInf true, XInf true => Eq
  | XInf false, XInf false => Eq
  | XInf true, _ => Lt
  | _, XInf true => Gt
  | XInf false, _ => Gt
  | _, XInf false => Lt
  end.

Definition num_compare (a b : num) : comparison := xval_compare (num_xval a) (num_xval b).
Definition num_eqb (a b : num) : bool := match num_compare a b with Eq => true | _ => false end.
Definition num_ltb (a b : num) : bool := match num_compare a b with Lt => true | _ => false end.
Definition num_is_zero (a : num) : bool := num_eqb a (NInt 0).

(* structural (representation) equality of nums: used to compare observables exactly,
   e.g. literal 1 versus literal 1.0 *)
Definition num_same (a b : num) : bool :=
  match a, b with
  | NInt x, NInt y => x =? y
  | NFlt m e, NFlt m' e' => (m =? m') && (e =? e')
  | NNegZero, NNegZero => true
  | NInf s, NInf s' => Bool.eqb s s'
  | _, _ => false
  end.

(* locations *)
Inductive key := KName (s : str) | KIdx (i : Z).
Definition node := (list key * json)%type.

Definition key_eqb (a b : key) : bool :=
  match a, b with
  | KName s, KName t => str_eqb s t
  | KIdx i, KIdx j => i =? j
  | _, _ => false
  end.

Definition is_container (v : json) : bool :=
  match v with JArr _ | JObj _ => true | _ => false end.

(* children of a node in document order, with their locations *)
Fixpoint enum_from {A} (i : Z) (l : list A) : list (Z * A) :=
  match l with [] => [] | x :: xs => (i, x) :: enum_from (i + 1) xs end.

Definition children (n : node) : list node :=
  match snd n with
  | JArr l => map (fun ie => (fst n ++ [KIdx (fst ie)], snd ie)) (enum_from 0 l)
  | JObj m => map (fun kv => (fst n ++ [KName (fst kv)], snd kv)) m
  | _ => []
  end.

(* container nesting depth: scalars 0, a container 1 + max of its members *)
Fixpoint nesting (v : json) : nat :=
  match v with
  | JArr l => S (fold_right (fun x acc => Nat.max (nesting x) acc) O l)
  | JObj m => S (fold_right (fun kv acc => Nat.max (nesting (snd kv)) acc) O m)
  | _ => O
  end.

(* well-formed: member names distinct, at every depth (what a Python dict guarantees) *)
Fixpoint names_distinct (ks : list str) : bool :=
  match ks with
  | [] => true
  | k :: ks' => negb (existsb (str_eqb k) ks') && names_distinct ks'
  end.
Fixpoint wf_json (v : json) : bool :=
  match v with
  | JArr l => forallb wf_json l
  | JObj m => names_distinct (map fst m) && forallb (fun kv => wf_json (snd kv)) m
  | _ => true
  end.

(* follow a location from the root *)
Fixpoint lookup (v : json) (loc : list key) : option json :=
  match loc with
  | [] => Some v
  | KName s :: loc' => match v with JObj m => match find_assoc s m with Some x => lookup x loc' | None => None end | _ => None end
  | KIdx i :: loc' => match v with JArr l => match znth l i with Some x => lookup x loc' | None => None end | _ => None end
  end.
