(* Base definitions shared by model and specification.
   A Python str is a sequence of code points: list N. *)
From Coq Require Export List ZArith NArith Bool Lia.
Export ListNotations.
Open Scope Z_scope.

Definition cp := N.
Definition str := list N.

Fixpoint str_eqb (a b : str) : bool :=
  match a, b with
  | [], [] => true
  | x :: a', y :: b' => N.eqb x y && str_eqb a' b'
  | _, _ => false
  end.

(* lexicographic order on code points: Python's str.__lt__ *)
Fixpoint str_ltb (a b : str) : bool :=
  match a, b with
  | [], [] => false
  | [], _ :: _ => true
  | _ :: _, [] => false
  | x :: a', y :: b' => if N.ltb x y then true else if N.eqb x y then str_ltb a' b' else false
  end.

(* exceptions.py: the JSONPathError subclasses *)
Inductive jperr := ESyntax | EType | EIndex | EName | ELexer | ERecursion.
(* any other Python exception the real code would raise at that point *)
Inductive pyexn := XOverflow | XTypeError | XKeyError | XIndexError | XAttribute | XValue
                 | XRecursion | XStopIteration | XAssertion.

Inductive result (A : Type) : Type :=
| Ok (a : A)
| Err (c : jperr) (off : option Z)   (* class, index of the attached token if any *)
| Crash (x : pyexn)
| OutOfFuel.
Arguments Ok {A} a. Arguments Err {A} c off. Arguments Crash {A} x. Arguments OutOfFuel {A}.

Definition bind {A B} (r : result A) (f : A -> result B) : result B :=
  match r with
  | Ok a => f a
  | Err c o => Err c o
  | Crash x => Crash x
  | OutOfFuel => OutOfFuel
  end.
Notation "'do' x <- r ; k" := (bind r (fun x => k)) (at level 200, x pattern, r at level 100, k at level 200).

Definition jperr_eqb (a b : jperr) : bool :=
  match a, b with
  | ESyntax, ESyntax | EType, EType | EIndex, EIndex | EName, EName | ELexer, ELexer
  | ERecursion, ERecursion => true
  | _, _ => false
  end.

Definition jperr_code (c : jperr) : Z :=
  match c with ESyntax => 1 | EType => 2 | EIndex => 3 | EName => 4 | ELexer => 5 | ERecursion => 6 end.
Definition pyexn_code (x : pyexn) : Z :=
  match x with XOverflow => 1 | XTypeError => 2 | XKeyError => 3 | XIndexError => 4 | XAttribute => 5
             | XValue => 6 | XRecursion => 7 | XStopIteration => 8 | XAssertion => 9 end.

Fixpoint mapM {A B} (f : A -> result B) (l : list A) : result (list B) :=
  match l with
  | [] => Ok []
  | x :: xs => do y <- f x; do ys <- mapM f xs; Ok (y :: ys)
  end.

(* concat-map in the result monad, left to right (generator pipelines collected into lists) *)
Fixpoint flat_mapM {A B} (f : A -> result (list B)) (l : list A) : result (list B) :=
  match l with
  | [] => Ok []
  | x :: xs => do y <- f x; do ys <- flat_mapM f xs; Ok (y ++ ys)
  end.

Definition zlen {A} (l : list A) : Z := Z.of_nat (length l).

(* l[i] for 0 <= i < len; no conversion of i to a unary number *)
Fixpoint znth_aux {A} (l : list A) (i : Z) : option A :=
  match l with
  | [] => None
  | x :: xs => if i =? 0 then Some x else znth_aux xs (i - 1)
  end.
Definition znth {A} (l : list A) (i : Z) : option A :=
  if i <? 0 then None else znth_aux l i.

Fixpoint find_assoc {A} (k : str) (m : list (str * A)) : option A :=
  match m with
  | [] => None
  | (k', v) :: m' => if str_eqb k k' then Some v else find_assoc k m'
  end.

Lemma str_eqb_refl a : str_eqb a a = true.
Proof. induction a; simpl; auto. rewrite N.eqb_refl. auto. Qed.

Lemma str_eqb_eq a b : str_eqb a b = true <-> a = b.
Proof.
  revert b; induction a as [|x a IH]; destruct b as [|y b]; simpl; split; intros H; try discriminate; auto.
  - apply andb_true_iff in H as [H1 H2]. apply N.eqb_eq in H1. apply IH in H2. congruence.
  - inversion H; subst. rewrite N.eqb_refl. apply str_eqb_refl.
Qed.

Lemma znth_aux_in_range {A} (l : list A) : forall i, 0 <= i < zlen l -> exists x, znth_aux l i = Some x.
Proof.
  induction l as [|y l IH]; intros i H; unfold zlen in *; cbn [length znth_aux] in *; [lia|].
  destruct (i =? 0) eqn:E; [eauto|]. apply IH. apply Z.eqb_neq in E. lia.
Qed.
Lemma znth_aux_out {A} (l : list A) : forall i, zlen l <= i -> znth_aux l i = None.
Proof.
  induction l as [|y l IH]; intros i H; unfold zlen in *; cbn [length znth_aux] in *; [reflexivity|].
  destruct (i =? 0) eqn:E; [apply Z.eqb_eq in E; lia|]. apply IH. lia.
Qed.
Lemma znth_in_range {A} (l : list A) i : 0 <= i < zlen l -> exists x, znth l i = Some x.
Proof.
  intros H. unfold znth. destruct (i <? 0) eqn:E; [apply Z.ltb_lt in E; lia|]. apply znth_aux_in_range; exact H.
Qed.
Lemma znth_out_of_range {A} (l : list A) i : ~ (0 <= i < zlen l) -> znth l i = None.
Proof.
  intros H. unfold znth. destruct (i <? 0) eqn:E; [reflexivity|]. apply Z.ltb_ge in E. apply znth_aux_out. lia.
Qed.
