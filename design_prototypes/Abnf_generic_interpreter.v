From Coq Require Import List NArith Arith Lia Bool.
Import ListNotations.
Definition cp := N.
Definition str := list cp.

Inductive gexp :=
| GEps
| GRange (lo hi : N)
| GSeq (a b : gexp)
| GAlt (a b : gexp)
| GStar (a : gexp)
| GRef (n : nat).

Inductive tree :=
| TEps | TChar (c:cp) | TSeq (a b:tree) | TL (a:tree) | TR (b:tree)
| TNil | TCons (a:tree) (rest:tree) | TRef (n:nat) (t:tree).

Definition grammar := nat -> gexp.

Section G.
Variable g : grammar.

(* derives e s t : e derives exactly s with parse tree t. Star iterations must be non-empty. *)
Inductive derives : gexp -> str -> tree -> Prop :=
| DEps : derives GEps [] TEps
| DRange lo hi c : (lo <= c)%N -> (c <= hi)%N -> derives (GRange lo hi) [c] (TChar c)
| DSeq a b s1 s2 t1 t2 : derives a s1 t1 -> derives b s2 t2 -> derives (GSeq a b) (s1++s2) (TSeq t1 t2)
| DAltL a b s t : derives a s t -> derives (GAlt a b) s (TL t)
| DAltR a b s t : derives b s t -> derives (GAlt a b) s (TR t)
| DStar0 a : derives (GStar a) [] TNil
| DStarS a s1 s2 t1 t2 : s1 <> [] -> derives a s1 t1 -> derives (GStar a) s2 t2 ->
                         derives (GStar a) (s1++s2) (TCons t1 t2)
| DRef n s t : derives (g n) s t -> derives (GRef n) s (TRef n t).

(* all-parses interpreter: returns (tree, remaining suffix). fuel bounds Ref depth and Star iterations *)
Fixpoint interp (fuel:nat) (e:gexp) (s:str) {struct fuel} : list (tree*str) :=
  match fuel with
  | O => []
  | S f =>
    match e with
    | GEps => [(TEps, s)]
    | GRange lo hi => match s with
                      | c::r => if (N.leb lo c && N.leb c hi)%bool then [(TChar c, r)] else []
                      | [] => [] end
    | GSeq a b => flat_map (fun p => map (fun q => (TSeq (fst p) (fst q), snd q)) (interp f b (snd p))) (interp f a s)
    | GAlt a b => map (fun p => (TL (fst p), snd p)) (interp f a s) ++ map (fun p => (TR (fst p), snd p)) (interp f b s)
    | GStar a => (TNil, s) ::
                 flat_map (fun p => if Nat.ltb (length (snd p)) (length s)
                                    then map (fun q => (TCons (fst p) (fst q), snd q)) (interp f (GStar a) (snd p))
                                    else []) (interp f a s)
    | GRef n => map (fun p => (TRef n (fst p), snd p)) (interp f (g n) s)
    end
  end.

Lemma interp_sound : forall fuel e s t r, In (t,r) (interp fuel e s) ->
  exists p, s = p ++ r /\ derives e p t.
Proof.
  induction fuel as [|f IH]; intros e s t r H; [inversion H|].
  destruct e; cbn [interp] in H.
  - destruct H as [H|[]]. inversion H; subst. exists []. split; [reflexivity|constructor].
  - destruct s as [|c s']; [inversion H|].
    destruct (N.leb lo c && N.leb c hi)%bool eqn:E; [|inversion H].
    destruct H as [H|[]]. inversion H; subst.
    apply andb_prop in E. destruct E as [E1 E2].
    apply N.leb_le in E1. apply N.leb_le in E2.
    exists [c]. split; [reflexivity|constructor; assumption].
  - apply in_flat_map in H. destruct H as [[t1 r1] [H1 H2]].
    apply in_map_iff in H2. destruct H2 as [[t2 r2] [Heq H2]]. cbn in Heq. inversion Heq; subst.
    apply IH in H1. apply IH in H2. cbn in H2.
    destruct H1 as [p1 [-> D1]]. destruct H2 as [p2 [-> D2]].
    exists (p1++p2). split; [now rewrite app_assoc|constructor; assumption].
  - apply in_app_or in H. destruct H as [H|H]; apply in_map_iff in H; destruct H as [[t1 r1] [Heq H]];
      cbn in Heq; inversion Heq; subst; apply IH in H; destruct H as [p [-> D]]; exists p; split; auto.
    + now apply DAltL.
    + now apply DAltR.
  - destruct H as [H|H].
    + inversion H; subst. exists []. split; [reflexivity|constructor].
    + apply in_flat_map in H. destruct H as [[t1 r1] [H1 H2]]. cbn [snd fst] in H2.
      destruct (Nat.ltb (length r1) (length s)) eqn:E; [|inversion H2].
      apply in_map_iff in H2. destruct H2 as [[t2 r2] [Heq H2]]. cbn in Heq. inversion Heq; subst.
      apply IH in H1. apply IH in H2.
      destruct H1 as [p1 [-> D1]]. destruct H2 as [p2 [-> D2]].
      exists (p1++p2). split; [now rewrite app_assoc|].
      apply DStarS; auto.
      intro; subst. apply Nat.ltb_lt in E. cbn in E. lia.
  - apply in_map_iff in H. destruct H as [[t1 r1] [Heq H]]. cbn in Heq. inversion Heq; subst.
    apply IH in H. destruct H as [p [-> D]]. exists p. split; auto. now constructor.
Qed.

(* height-indexed derivations for completeness *)
Inductive derh : nat -> gexp -> str -> tree -> Prop :=
| HEps h : derh (S h) GEps [] TEps
| HRange h lo hi c : (lo <= c)%N -> (c <= hi)%N -> derh (S h) (GRange lo hi) [c] (TChar c)
| HSeq h a b s1 s2 t1 t2 : derh h a s1 t1 -> derh h b s2 t2 -> derh (S h) (GSeq a b) (s1++s2) (TSeq t1 t2)
| HAltL h a b s t : derh h a s t -> derh (S h) (GAlt a b) s (TL t)
| HAltR h a b s t : derh h b s t -> derh (S h) (GAlt a b) s (TR t)
| HStar0 h a : derh (S h) (GStar a) [] TNil
| HStarS h a s1 s2 t1 t2 : s1 <> [] -> derh h a s1 t1 -> derh h (GStar a) s2 t2 ->
                         derh (S h) (GStar a) (s1++s2) (TCons t1 t2)
| HRef h n s t : derh h (g n) s t -> derh (S h) (GRef n) s (TRef n t).

Lemma derh_mono : forall h e s t, derh h e s t -> forall h', h <= h' -> derh h' e s t.
Proof.
  induction 1; intros h' Hle; (destruct h' as [|h']; [lia|]); econstructor; eauto; try (apply IHderh; lia);
  try (apply IHderh1; lia); try (apply IHderh2; lia).
Qed.

Lemma derives_derh : forall e s t, derives e s t -> exists h, derh h e s t.
Proof.
  induction 1.
  - exists 1; constructor.
  - exists 1; constructor; auto.
  - destruct IHderives1 as [h1 D1], IHderives2 as [h2 D2]. exists (S (max h1 h2)).
    constructor; eapply derh_mono; eauto; lia.
  - destruct IHderives as [h D]. exists (S h). now apply HAltL.
  - destruct IHderives as [h D]. exists (S h). now apply HAltR.
  - exists 1; constructor.
  - destruct IHderives1 as [h1 D1], IHderives2 as [h2 D2]. exists (S (max h1 h2)).
    apply HStarS; auto; eapply derh_mono; eauto; lia.
  - destruct IHderives as [h D]. exists (S h). now constructor.
Qed.

Lemma interp_complete_h : forall h e p t, derh h e p t -> forall r, In (t, r) (interp h e (p ++ r)).
Proof.
  induction 1; intros r; cbn [interp].
  - left; reflexivity.
  - cbn. apply N.leb_le in H. apply N.leb_le in H0. rewrite H, H0. left; reflexivity.
  - rewrite <- app_assoc. apply in_flat_map. exists (t1, s2 ++ r). split; [apply IHderh1|].
    cbn. apply in_map_iff. exists (t2, r). split; [reflexivity|apply IHderh2].
  - apply in_or_app. left. apply in_map_iff. exists (t, r). split; [reflexivity|apply IHderh].
  - apply in_or_app. right. apply in_map_iff. exists (t, r). split; [reflexivity|apply IHderh].
  - left; reflexivity.
  - right. rewrite <- app_assoc. apply in_flat_map. exists (t1, s2 ++ r). split; [apply IHderh1|].
    cbn [snd fst].
    assert (E: Nat.ltb (length (s2 ++ r)) (length (s1 ++ s2 ++ r)) = true).
    { apply Nat.ltb_lt. rewrite (app_length s1). destruct s1; [congruence|cbn; lia]. }
    rewrite E. apply in_map_iff. exists (t2, r). split; [reflexivity|apply IHderh2].
  - apply in_map_iff. exists (t, r). split; [reflexivity|apply IHderh].
Qed.

Theorem interp_complete : forall e p t, derives e p t -> exists fuel, forall r, In (t,r) (interp fuel e (p++r)).
Proof.
  intros e p t D. apply derives_derh in D. destruct D as [h D]. exists h. intro r. now apply interp_complete_h.
Qed.
End G.
Print Assumptions interp_sound.
Print Assumptions interp_complete.
