From Coq Require Import List ZArith NArith Lia Bool.
Import ListNotations.
Definition cp := N.
Definition str := list cp.
Inductive json :=
| JNull | JBool (b:bool) | JInt (z:Z) | JStr (s:str)
| JArr (l:list json) | JObj (m:list (str*json)).
Inductive key := KName (s:str) | KIdx (i:Z).
Definition node := (list key * json)%type.
Inductive sel := SName (s:str) | SIndex (i:Z) | SWild | SFilter (e:expr)
with expr := ETest (q:list seg) | ENot (e:expr) | EAnd (a b:expr)
with seg := Child (ss:list sel) | Desc (ss:list sel).
Fixpoint enum_from {A} (i:Z) (l:list A) : list (Z*A) :=
  match l with [] => [] | x::t => (i,x)::enum_from (i+1)%Z t end.
Definition children (n:node) : list node :=
  match snd n with
  | JArr l => map (fun p => (fst n ++ [KIdx (fst p)], snd p)) (enum_from 0 l)
  | JObj m => map (fun p => (fst n ++ [KName (fst p)], snd p)) m
  | _ => [] end.
Fixpoint jsize (v:json) : nat :=
  match v with
  | JArr l => S (fold_right (fun x a => jsize x + a) 0 l)
  | JObj m => S (fold_right (fun x a => jsize (snd x) + a) 0 m)
  | _ => 1 end.
(* pre-order descendants with nested recursion *)
Fixpoint desc (loc:list key) (v:json) {struct v} : list node :=
  (loc,v) :: match v with
  | JArr l => (fix go (i:Z) (l:list json) : list node :=
                 match l with [] => [] | x::t => desc (loc++[KIdx i]) x ++ go (i+1)%Z t end) 0%Z l
  | JObj m => (fix go (m:list (str*json)) : list node :=
                 match m with [] => [] | (k,x)::t => desc (loc++[KName k]) x ++ go t end) m
  | _ => [] end.
Fixpoint eval_sel (root:json) (s:sel) (n:node) {struct s} : list node :=
  match s with
  | SName k => match snd n with JObj m => match find (fun p => if list_eq_dec N.eq_dec (fst p) k then true else false) m with Some p => [(fst n ++ [KName k], snd p)] | None => [] end | _ => [] end
  | SIndex i => []
  | SWild => children n
  | SFilter e => filter (fun c => eval_expr root e c) (children n)
  end
with eval_expr (root:json) (e:expr) (cur:node) {struct e} : bool :=
  match e with
  | ETest q => match (fix segs (q:list seg) (ns:list node) : list node :=
                  match q with [] => ns | s::t => segs t (eval_seg root s ns) end) q [( [], snd cur)] with [] => false | _ => true end
  | ENot e => negb (eval_expr root e cur)
  | EAnd a b => eval_expr root a cur && eval_expr root b cur
  end
with eval_seg (root:json) (s:seg) (ns:list node) {struct s} : list node :=
  match s with
  | Child ss => flat_map (fun n => (fix sels (ss:list sel) := match ss with [] => [] | x::t => eval_sel root x n ++ sels t end) ss) ns
  | Desc ss => flat_map (fun n => flat_map (fun d => (fix sels (ss:list sel) := match ss with [] => [] | x::t => eval_sel root x d ++ sels t end) ss) (desc (fst n) (snd n))) ns
  end.
Definition t := JObj [([97%N], JArr [JInt 1; JObj [([98%N], JInt 2)]])].
Eval vm_compute in length (eval_seg t (Desc [SWild; SFilter (ENot (ETest [Child [SName [98%N]]]))]) [([],t)]).
Require Import ExtrOcamlBasic.
Extraction "j.ml" eval_seg desc.
