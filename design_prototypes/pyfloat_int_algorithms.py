# pure-integer models of float(str) and repr(float), to be transcribed to Gallina (Z only)
import random, struct, sys
def dec_to_double(sign, digits, exp10):
    """value = (-1)^sign * digits * 10^exp10 ; returns ('zero',s) | ('inf',s) | ('fin', s, m, e) with value m*2^e, m<2^53"""
    if digits == 0: return ('zero', sign)
    # numerator/denominator
    if exp10 >= 0: num, den = digits * 10**exp10, 1
    else: num, den = digits, 10**(-exp10)
    # find e such that 2^52 <= num/den / 2^e < 2^53  (normal), clamp e >= -1074
    e = num.bit_length() - den.bit_length() - 53
    def q(e):
        if e >= 0: return num, den << e
        return num << (-e), den
    n, d = q(e)
    while n // d >= (1 << 53): e += 1; n, d = q(e)
    while n // d < (1 << 52): e -= 1; n, d = q(e)
    if e < -1074: e = -1074; n, d = q(e)
    m, r = divmod(n, d)
    # round half even
    if 2 * r > d or (2 * r == d and m & 1): m += 1
    if m == (1 << 53): m >>= 1; e += 1
    if m == 0: return ('zero', sign)
    if e + 52 > 1023 and m >= (1 << 52): return ('inf', sign)
    return ('fin', sign, m, e)
def to_py(x):
    if x[0] == 'zero': return -0.0 if x[1] else 0.0
    if x[0] == 'inf': return float('-inf') if x[1] else float('inf')
    _, s, m, e = x
    import math
    v = math.ldexp(m, e)
    return -v if s else v
def parse_lit(s):
    sign = 0
    if s[0] == '-': sign = 1; s = s[1:]
    mant, _, ex = s.lower().partition('e')
    ip, _, fp = mant.partition('.')
    e10 = int(ex) if ex else 0
    return sign, int(ip + fp), e10 - len(fp)
def bits(f): return struct.pack('>d', f)
rnd = random.Random(7); bad = 0; N = 300000
for i in range(N):
    k = rnd.choice([1, 2, 5, 10, 17, 18, 25, 40])
    ip = str(rnd.randrange(10**rnd.randint(0, k)))
    s = ('-' if rnd.random() < .3 else '') + ip
    if rnd.random() < .7: s += '.' + ''.join(rnd.choice('0123456789') for _ in range(rnd.randint(1, k)))
    if rnd.random() < .6: s += rnd.choice('eE') + rnd.choice(['', '+', '-']) + str(rnd.choice([0, 1, 5, 22, 23, 300, 308, 309, 323, 324, 325, 400, rnd.randint(0, 330)]))
    want = float(s); got = to_py(dec_to_double(*parse_lit(s)))
    if bits(want) != bits(got):
        bad += 1
        if bad < 5: print("MISMATCH", s, want.hex(), got.hex())
print("float(str) cases", N, "bad", bad)
# repr: shortest round trip
def frexp_exact(x):  # x>0 finite python float -> (m,e) with x = m*2^e
    m, e = x.hex().split('p'); import math
    mm, ee = math.frexp(x); m = int(mm * (1 << 53)); return m, ee - 53
def repr_model(x):
    import math
    if x == 0: return '-0.0' if math.copysign(1, x) < 0 else '0.0'
    if math.isinf(x): return '-inf' if x < 0 else 'inf'
    sign = '-' if x < 0 else ''; ax = abs(x)
    m, e = frexp_exact(ax)
    num, den = (m << e, 1) if e >= 0 else (m, 1 << (-e))
    for p in range(1, 18):
        # decimal exponent k such that 10^(k) <= ax < 10^(k+1)
        k = len(str(num // den)) - 1 if num >= den else None
        if k is None:
            k = -1
            while num * 10**(-k) < den: k -= 1
        # candidates: floor and ceil of ax / 10^(k-p+1)
        sh = k - p + 1
        n2, d2 = (num, den * 10**sh) if sh >= 0 else (num * 10**(-sh), den)
        lo = n2 // d2; cands = [lo, lo + 1]
        best = None
        for c in cands:
            if c == 0: continue
            dd = dec_to_double(0, c, sh)
            if dd[0] == "fin" and to_py(dd) == ax:
                # distance |c*10^sh - ax|
                dist = abs(c * d2 - n2)
                if best is None or dist < best[0]: best = (dist, c)
        if best:
            digits = str(best[1]); 
            if len(digits) > p: k += 1; digits = digits.rstrip('0') or '0'
            digits = digits.rstrip('0') or '0'
            return sign + fmt(digits, k)
    return None
def norm(m, e):
    while m < (1 << 52) and e > -1074: m <<= 1; e -= 1
    while m >= (1 << 53): m >>= 1; e += 1
    return m, e
def fmt(digits, k):  # value = 0.d1d2.. * 10^(k+1) ; python repr rules: decpt=k+1; exponent form if decpt > 16 or decpt < -3
    decpt = k + 1
    if -4 < decpt <= 16:
        if decpt <= 0: return '0.' + '0' * (-decpt) + digits
        if len(digits) <= decpt: return digits + '0' * (decpt - len(digits)) + '.0'
        return digits[:decpt] + '.' + digits[decpt:]
    ex = decpt - 1
    mant = digits[0] + ('.' + digits[1:] if len(digits) > 1 else '')
    return mant + 'e' + ('-' if ex < 0 else '+') + ('%02d' % abs(ex))
bad = 0; N2 = 60000
for i in range(N2):
    c = rnd.random()
    if c < .3: x = struct.unpack('>d', struct.pack('>Q', rnd.getrandbits(64) & 0x7FEFFFFFFFFFFFFF))[0]
    elif c < .6: x = float(rnd.randint(0, 10**rnd.randint(1, 22)))
    elif c < .8: x = rnd.randint(0, 10**6) / 10**rnd.randint(0, 12)
    else: x = 2.0 ** rnd.randint(-1074, 1023)
    if x != x: continue
    if rnd.random() < .3: x = -x
    got = repr_model(x)
    if got != repr(x):
        bad += 1
        if bad < 6: print("REPR MISMATCH", repr(x), got)
print("repr cases", N2, "bad", bad)
