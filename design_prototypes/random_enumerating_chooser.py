import sys, itertools, random
sys.path.insert(0,'/repo')
from jsonpath_rfc9535 import JSONPathEnvironment
class EN(JSONPathEnvironment):
    nondeterministic=True
class Chooser:
    def __init__(self): self.script=[]; self.pos=0; self.arity=[]
    def pick(self,n):
        if n<=1: return 0
        if self.pos<len(self.script): c=self.script[self.pos]
        else: self.script.append(0); self.arity.append(n); c=0
        if self.pos>=len(self.arity): self.arity.append(n)
        self.arity[self.pos]=n
        self.pos+=1; return c
    def advance(self):
        # next script in DFS order
        while self.script:
            i=len(self.script)-1
            if self.script[i]+1<self.arity[i]:
                self.script[i]+=1; self.arity=self.arity[:i+1]; self.pos=0; return True
            self.script.pop(); self.arity=self.arity[:len(self.script)]
        return False
ch=Chooser()
def shuffle(x):
    n=len(x)
    for i in range(n-1):
        j=i+ch.pick(n-i); x[i],x[j]=x[j],x[i]
def choice(seq): return seq[ch.pick(len(seq))]
def sample(pop,k):
    pop=list(pop); out=[]
    for _ in range(k):
        out.append(pop.pop(ch.pick(len(pop))))
    return out
random.shuffle=shuffle; random.choice=choice; random.sample=sample
def enum(q, data, env=None):
    env=env or EN(); res=set(); errs=set(); n=0
    global ch; ch=Chooser()
    c=env.compile(q)
    while True:
        ch.pos=0
        try: res.add(tuple(str(n.location) for n in c.find(data)))
        except Exception as e: errs.add(type(e).__name__)
        n+=1
        if not ch.advance(): break
    return res, errs, n
r,e,n=enum("$..[*]", {"a": {"x":[1], "y":[2]}, "b":[3]})
print(len(r), e, n)
target=("('a',)","('b',)") 
# look for visit order R,a,x,b,y => results: a,b | x,y | 1 | 3 | 2   (with member order a,b ; x,y)
want=("('a',)","('b',)","('a', 'x')","('a', 'y')","('a', 'x', 0)","('b', 0)","('a', 'y', 0)")
print(want in r)
class EN3(EN): max_recursion_depth=3
print(enum("$..*", [[[1]]], EN3()))
print(enum("$..*", [[[[1]]]], EN3())[1:])
