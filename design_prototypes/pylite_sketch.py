"""Prototype PyLite -> Gallina (scratch). Fail-closed."""
import ast, sys
SRC = open('/repo/jsonpath_rfc9535/filter_expressions.py').read()
mod = ast.parse(SRC)
funcs = {n.name: n for n in mod.body if isinstance(n, ast.FunctionDef)}
CLASSES = {'JSONPathNodeList':'CNodeList','bool':'CBool','str':'CStr','int':'CInt','float':'CFloat','Nothing':'CNothing','list':'CList','dict':'CDict'}
class Unsupported(Exception): pass
def cls(e):
    if isinstance(e, ast.Name) and e.id in CLASSES: return '['+CLASSES[e.id]+']'
    if isinstance(e, ast.Tuple): return '['+'; '.join(CLASSES[x.id] for x in e.elts)+']'
    raise Unsupported(ast.dump(e))
def bexp(e):
    """boolean-typed expression -> Gallina bool"""
    if isinstance(e, ast.BoolOp):
        op = ' && ' if isinstance(e.op, ast.And) else ' || '
        return '(' + op.join(bexp(v) for v in e.values) + ')'
    if isinstance(e, ast.UnaryOp) and isinstance(e.op, ast.Not): return '(negb %s)' % bexp(e.operand)
    if isinstance(e, ast.Call) and isinstance(e.func, ast.Name):
        f = e.func.id
        if f == 'isinstance': return '(isinstance %s %s)' % (oexp(e.args[0]), cls(e.args[1]))
        if f == 'bool': return '(py_bool %s)' % oexp(e.args[0])
        if f in funcs: return '(%s %s)' % (f, ' '.join(arg(a) for a in e.args))
    if isinstance(e, ast.Call) and isinstance(e.func, ast.Attribute) and e.func.attr == 'empty':
        return '(nodes_empty %s)' % oexp(e.func.value)
    if isinstance(e, ast.Compare) and len(e.ops) == 1:
        l, r, op = e.left, e.comparators[0], e.ops[0]
        if isinstance(op, (ast.Is, ast.IsNot)):
            if isinstance(r, ast.Constant) and r.value is None: t = '(is_none %s)' % oexp(l)
            elif isinstance(r, ast.Name) and r.id == 'NOTHING': t = '(is_nothing %s)' % oexp(l)
            else: raise Unsupported(ast.dump(e))
            return t if isinstance(op, ast.Is) else '(negb %s)' % t
        if isinstance(l, ast.Name) and l.id == 'operator' and isinstance(r, ast.Constant) and isinstance(op, ast.Eq):
            return '(opeq operator "%s")' % r.value
        if isinstance(l, ast.Call) and isinstance(l.func, ast.Name) and l.func.id == 'len' and isinstance(r, ast.Constant):
            return '(Nat.eqb (py_len %s) %d)' % (oexp(l.args[0]), r.value)
        if isinstance(op, ast.Eq): return '(py_eq %s %s)' % (oexp(l), oexp(r))
        if isinstance(op, ast.Lt): return '(py_lt %s %s)' % (oexp(l), oexp(r))
    if isinstance(e, ast.Constant) and isinstance(e.value, bool): return 'true' if e.value else 'false'
    raise Unsupported(ast.dump(e))
def oexp(e):
    """object-typed expression -> Gallina pyobj"""
    if isinstance(e, ast.Name): return e.id
    if isinstance(e, ast.Subscript) and isinstance(e.slice, ast.Constant) and e.slice.value == 0:
        return '(py_item0 %s)' % oexp(e.value)
    if isinstance(e, ast.Attribute) and e.attr == 'value': return '(node_value %s)' % oexp(e.value)
    raise Unsupported(ast.dump(e))
def arg(a):
    if isinstance(a, ast.Name): return a.id
    return oexp(a)
def stmts(ss, k=None):
    """translate statement list; k = continuation text or None (function end -> fallthrough error)"""
    if not ss:
        if k is None: raise Unsupported('fall off end')
        return k
    s, rest = ss[0], ss[1:]
    if isinstance(s, ast.Expr) and isinstance(s.value, ast.Constant): return stmts(rest, k)  # docstring
    if isinstance(s, ast.Return): return bexp(s.value)
    if isinstance(s, ast.If):
        cont = stmts(rest, k) if (rest or k) else None
        return '(if %s\n then %s\n else %s)' % (bexp(s.test), stmts(s.body, cont), stmts(s.orelse, cont) if s.orelse else cont)
    if isinstance(s, ast.Assign) and isinstance(s.targets[0], ast.Tuple):
        names = [t.id for t in s.targets[0].elts]; vals = [oexp(v) for v in s.value.elts]
        return "(let '(%s) := (%s) in %s)" % (', '.join(names), ', '.join(vals), stmts(rest, k))
    raise Unsupported(ast.dump(s))
out = []
for name in ['_is_truthy', '_eq', '_lt', '_compare']:
    f = funcs[name]
    params = ' '.join('(%s : %s)' % (a.arg, 'opname' if a.arg == 'operator' else 'pyobj') for a in f.args.args)
    out.append('Definition %s %s : bool :=\n %s.\n' % (name, params, stmts(f.body)))
print('\n'.join(out))
