From Coq Require Import List Arith Lia Bool.
Import ListNotations.

Inductive bop := And | Or | Cmp.
Inductive tok := TAtom (n:nat) | TNot | TBin (o:bop) | TLP | TRP | TEnd.
Inductive expr := EAtom (n:nat) | ENot (e:expr) | EBin (o:bop) (l r:expr).

Definition bprec (o:bop) : nat := match o with And => 4 | Or => 3 | Cmp => 5 end.
(* PRECEDENCES.get(kind, LOWEST) *)
Definition tprec (t:tok) : nat := match t with TBin o => bprec o | TNot => 7 | _ => 1 end.
Definition is_end (t:tok) : bool := match t with TEnd => true | _ => false end.

(* mirrors parse_filter_expression / parse_prefix / parse_grouped / parse_infix *)
Fixpoint pexpr (fuel p:nat) (ts:list tok) {struct fuel} : option (expr * list tok) :=
  match fuel with O => None | S f =>
    match prim f ts with
    | Some (lhs, rest) => ploop f p lhs rest
    | None => None end end
with prim (fuel:nat) (ts:list tok) {struct fuel} : option (expr * list tok) :=
  match fuel with O => None | S f =>
    match ts with
    | TAtom n :: r => Some (EAtom n, r)
    | TNot :: r => match pexpr f 7 r with Some (e, r') => Some (ENot e, r') | None => None end
    | TLP :: r => match pexpr f 1 r with Some (e, r') => pgroup f e r' | None => None end
    | _ => None end end
with ploop (fuel p:nat) (lhs:expr) (rest:list tok) {struct fuel} : option (expr * list tok) :=
  match fuel with O => None | S f =>
    match rest with
    | [] => None
    | t :: r =>
      if is_end t || (tprec t <? p) then Some (lhs, rest)
      else match t with
           | TBin o => match pexpr f (bprec o) r with
                       | Some (rhs, r') => ploop f p (EBin o lhs rhs) r'
                       | None => None end
           | _ => Some (lhs, rest) end
    end end
with pgroup (fuel:nat) (e:expr) (rest:list tok) {struct fuel} : option (expr * list tok) :=
  match fuel with O => None | S f =>
    match rest with
    | TRP :: r => Some (e, r)
    | TBin o :: r => match pexpr f (bprec o) r with
                     | Some (rhs, r') => pgroup f (EBin o e rhs) r'
                     | None => None end
    | _ => None end end.

(* printer = _canonical_string with comparisons given precedence 5 (the intended fix) *)
Definition wrap (b:bool) (ts:list tok) := if b then TLP :: ts ++ [TRP] else ts.
Fixpoint print (e:expr) (pp:nat) : list tok :=
  match e with
  | EAtom n => [TAtom n]
  | ENot e => wrap (7 <? pp) (TNot :: print e 7)
  | EBin o l r => wrap (bprec o <=? pp) (print l (bprec o) ++ TBin o :: print r (bprec o))
  end.

(* fuel monotonicity *)
Lemma mono : forall f,
  (forall p ts x, pexpr f p ts = Some x -> forall f', f <= f' -> pexpr f' p ts = Some x) /\
  (forall ts x, prim f ts = Some x -> forall f', f <= f' -> prim f' ts = Some x) /\
  (forall p l r x, ploop f p l r = Some x -> forall f', f <= f' -> ploop f' p l r = Some x) /\
  (forall e r x, pgroup f e r = Some x -> forall f', f <= f' -> pgroup f' e r = Some x).
Proof.
  induction f as [|f [IH1 [IH2 [IH3 IH4]]]].
  - repeat split; intros; discriminate.
  - repeat split.
    + intros p ts x H f' Hf. destruct f' as [|f']; [lia|]. cbn [pexpr] in *.
      destruct (prim f ts) as [[l r]|] eqn:E; [|discriminate].
      rewrite (IH2 _ _ E f') by lia. apply IH3 with (f':=f') in H; [exact H|lia].
    + intros ts x H f' Hf. destruct f' as [|f']; [lia|]. cbn [prim] in *.
      destruct ts as [|t r]; [discriminate|]. destruct t; try discriminate; auto.
      * destruct (pexpr f 7 r) as [[e r']|] eqn:E; [|discriminate].
        rewrite (IH1 _ _ _ E f') by lia. exact H.
      * destruct (pexpr f 1 r) as [[e r']|] eqn:E; [|discriminate].
        rewrite (IH1 _ _ _ E f') by lia. apply IH4 with (f':=f') in H; [exact H|lia].
    + intros p l r x H f' Hf. destruct f' as [|f']; [lia|]. cbn [ploop] in *.
      destruct r as [|t r]; [discriminate|].
      destruct (is_end t || (tprec t <? p)); [exact H|].
      destruct t; auto.
      destruct (pexpr f (bprec o) r) as [[e r']|] eqn:E; [|discriminate].
      rewrite (IH1 _ _ _ E f') by lia. apply IH3 with (f':=f') in H; [exact H|lia].
    + intros e r x H f' Hf. destruct f' as [|f']; [lia|]. cbn [pgroup] in *.
      destruct r as [|t r]; [discriminate|]. destruct t; try discriminate; auto.
      destruct (pexpr f (bprec o) r) as [[e' r']|] eqn:E; [|discriminate].
      rewrite (IH1 _ _ _ E f') by lia. apply IH4 with (f':=f') in H; [exact H|lia].
Qed.

(* "the loop at precedence q stops at rest": next token ends, or binds weaker than q, or is no operator *)
Definition stops (q:nat) (rest:list tok) : Prop :=
  match rest with
  | [] => False
  | t :: _ => is_end t = true \/ tprec t < q \/ (forall o, t <> TBin o)
  end.

Lemma ploop_stops : forall f q l rest, stops q rest -> ploop (S f) q l rest = Some (l, rest).
Proof.
  intros f q l rest H. destruct rest as [|t r]; [contradiction|]. cbn [ploop].
  destruct H as [H|[H|H]].
  - rewrite H. reflexivity.
  - apply Nat.ltb_lt in H. rewrite H, orb_true_r. reflexivity.
  - destruct (is_end t || (tprec t <? q)); [reflexivity|]. destruct t; try reflexivity. exfalso; eapply H; eauto.
Qed.

Lemma stops_weaken : forall q q' rest, q <= q' -> stops q rest -> stops q' rest.
Proof. intros q q' [|t r] Hq H; [exact H|]. cbn in *. destruct H as [H|[H|H]]; auto. right; left; lia. Qed.

Fixpoint size (e:expr) : nat := match e with EAtom _ => 1 | ENot e => S (size e) | EBin _ l r => S (size l + size r) end.


Definition M := mono.
Lemma pexpr_mono f f' p ts x : pexpr f p ts = Some x -> f <= f' -> pexpr f' p ts = Some x.
Proof. intros; eapply (proj1 (M f)); eauto. Qed.
Lemma prim_mono f f' ts x : prim f ts = Some x -> f <= f' -> prim f' ts = Some x.
Proof. intros; eapply (proj1 (proj2 (M f))); eauto. Qed.
Lemma ploop_mono f f' p l r x : ploop f p l r = Some x -> f <= f' -> ploop f' p l r = Some x.
Proof. intros; eapply (proj1 (proj2 (proj2 (M f)))); eauto. Qed.
Lemma pgroup_mono f f' e r x : pgroup f e r = Some x -> f <= f' -> pgroup f' e r = Some x.
Proof. intros; eapply (proj2 (proj2 (proj2 (M f)))); eauto. Qed.

Lemma pexpr_intro f1 f2 p ts l r x :
  prim f1 ts = Some (l, r) -> ploop f2 p l r = Some x -> pexpr (S (max f1 f2)) p ts = Some x.
Proof.
  intros H1 H2. cbn [pexpr]. rewrite (prim_mono _ (max f1 f2) _ _ H1) by lia.
  eapply ploop_mono; eauto; lia.
Qed.

Lemma ploop_infix f1 f2 p o l r rest x : p <= bprec o ->
  pexpr f1 (bprec o) rest = Some (r, x) -> forall res, ploop f2 p (EBin o l r) x = Some res ->
  ploop (S (max f1 f2)) p l (TBin o :: rest) = Some res.
Proof.
  intros Hp H1 res H2. cbn [ploop is_end tprec orb].
  destruct (bprec o <? p) eqn:E; [apply Nat.ltb_lt in E; lia|].
  rewrite (pexpr_mono _ (max f1 f2) _ _ _ H1) by lia. eapply ploop_mono; eauto; lia.
Qed.

Lemma stops_nonbin q t r : (forall o, t <> TBin o) -> stops q (t :: r).
Proof. intros; cbn; auto. Qed.
Ltac nonbin := apply stops_nonbin; intros; congruence.

Lemma core : forall e pp rest p res, pp <= 7 -> p <= pp -> stops (S pp) rest ->
  (exists f0, ploop f0 p e rest = Some res) ->
  exists f, pexpr f p (print e pp ++ rest) = Some res.
Proof.
  induction e as [n|e IH|o l IHl r IHr]; intros pp rest p res H7 Hp Hs [f0 Hl].
  - (* atom *) cbn [print app]. exists (S (max 1 f0)). eapply pexpr_intro; eauto. reflexivity.
  - (* not *)
    assert (Hne: stops 7 rest).
    { destruct rest as [|t rr]; [contradiction|]. destruct t; cbn; try (right; right; intros; congruence).
      right; left. destruct o; cbn; lia. }
    assert (Hinner: forall rest', stops 7 rest' -> exists f, pexpr f 7 (print e 7 ++ rest') = Some (e, rest')).
    { intros rest' Hs'. apply IH; [lia|lia|eapply stops_weaken; [|exact Hs']; lia|].
      exists 1. now apply ploop_stops. }
    cbn [print]. unfold wrap. destruct (7 <? pp) eqn:E.
    + apply Nat.ltb_lt in E. lia.
    + destruct (Hinner rest Hne) as [f1 H1].
      assert (Hp1: prim (S f1) (TNot :: print e 7 ++ rest) = Some (ENot e, rest)).
      { cbn [prim]. rewrite H1. reflexivity. }
      exists (S (max (S f1) f0)). cbn [app]. eapply pexpr_intro; eauto.
  - (* binary *)
    set (q := bprec o).
    assert (Hq: 1 <= q) by (unfold q; destruct o; cbn; lia).
    (* parsing "print l q ++ op :: print r q ++ tail" in a loop at p' <= q whose tail stops q *)
    assert (Hmid: forall p' tail res', p' <= q -> stops q tail -> stops (S q) tail ->
              (exists f, ploop f p' (EBin o l r) tail = Some res') ->
              exists f, pexpr f p' (print l q ++ TBin o :: print r q ++ tail) = Some res').
    { intros p' tail res' Hp' Hst Hst' [f2 H2].
      destruct (IHr q tail q (r, tail)) as [f1 H1]; [unfold q; destruct o; cbn; lia|lia|exact Hst'|exists 1; now apply ploop_stops|].
      apply IHl; [unfold q; destruct o; cbn; lia|exact Hp'|cbn; right; left; fold q; lia|].
      eexists. eapply ploop_infix; eauto. }
    cbn [print]. fold q. unfold wrap. destruct (q <=? pp) eqn:E.
    + (* parenthesised *)
      apply Nat.leb_le in E.
      destruct (Hmid 1 (TRP :: rest) (EBin o l r, TRP :: rest)) as [f1 H1]; auto.
      { nonbin. } { nonbin. }
      { exists 1. apply ploop_stops. nonbin. }
      assert (Hg: prim (S (S f1)) (TLP :: (print l q ++ TBin o :: print r q) ++ [TRP] ++ rest) = Some (EBin o l r, rest)).
      { cbn [prim]. rewrite <- app_assoc. cbn [app].
        rewrite (pexpr_mono _ (S f1) _ _ _ H1) by lia. reflexivity. }
      exists (S (max (S (S f1)) f0)). cbn [app]. rewrite <- app_assoc. eapply pexpr_intro; eauto.
      all: try (rewrite <- app_assoc in Hg; exact Hg).
    + apply Nat.leb_gt in E. rewrite <- app_assoc. cbn [app].
      apply Hmid; [lia| | |eauto].
      * destruct rest as [|t rr]; [contradiction|]. cbn in *. destruct Hs as [H|[H|H]]; auto. right; left; lia.
      * eapply stops_weaken; [|exact Hs]. lia.
Qed.

Theorem roundtrip : forall e, exists f, pexpr f 1 (print e 1 ++ [TEnd]) = Some (e, [TEnd]).
Proof.
  intro e. apply core; [lia|lia|cbn; auto|]. exists 1. apply ploop_stops. cbn; auto.
Qed.
Print Assumptions roundtrip.
